"""C20 Estimation results are read faithfully from NONMEM output.

Oracle: vp.gen.nmoutput, a reference WRITER that renders a synthetic NONMEM run (control stream, .ext, .phi,
.cov/.cor/.coi, $TABLE files, .lst) in NONMEM's fixed-width layouts and remembers float(token) of every number it
printed.  pharmpy's real NONMEMTableFile and read_modelfit_results read the files back; every reported number must
be the printed one, taken from the row/table NONMEM designates, under the model's own parameter names; matrices
pharmpy derives itself must satisfy their defining relations; the results object must survive to_json/read_results.

Mechanism keys (each attributed by a delta check, see COR_KEY / NOHEADER_KEY / JSON_KEY):
  C20/cor-values-readonly              run with a .cor file -> ValueError (np.fill_diagonal on a read-only view);
                                       delta: same run without the .cor file is read
  C20/noheader-first-record-as-labels  $TABLE ... NOHEADER: first record taken as column labels, predictions shifted;
                                       delta: same table with a label line (NOTITLE) is read correctly
  C20/json-15-decimals                 to_json writes 15 decimals: |x| < 1e-6 loses significant digits;
                                       delta: with exact doubles put back into the encoder output the round trip is equal
"""
from __future__ import annotations

import math
import os
import shutil
from pathlib import Path

from vp.farm import Case, fp_of

PROP = "C20"
LEVEL = "exploration"
RULE = (
    "synthetic NONMEM runs: 1-6 thetas (bounds, FIX, name comments), 1-4 etas / 1-2 epsilons in diagonal and "
    "BLOCK records (FIX blocks, one '0 FIX' omega), 1-3 $ESTIMATION steps (classical / EM with PHI,PHC and "
    "MU referencing / MAXEVAL=0), optional $COVARIANCE with a random PD covariance matrix (correlation part cond "
    "<= 1e8, scales spread over decades), cov/cor/coi present in random subsets (cor only in a dedicated 20% "
    "stratum), 0-2 $TABLE files, number profiles plain / wide (2-digit exponents, both signs) / exp3 (positive "
    "values down to E-300); plus stand-alone $TABLE files with several tables and headers repeated every 900 "
    "records. distinct by the sha1 of all written files; non-trivial if the run has >= 2 thetas and at least "
    "one of: FIX entry, BLOCK record, >= 2 estimation steps, covariance step"
)
ASSUMPTIONS = [
    "file layouts as in docs/NONMEM.rst and tests/testdata/nonmem/pheno_real.*: order THETA,SIGMA,OMEGA, FIX/unused "
    "elements zero in cov/cor/coi and flagged in row -1000000006, .cor diagonal holds the standard errors",
    "special ext rows: -1000000000 final, -1 SE, -2 eigenvalues, -3 condition number, -4 sd/corr, -5 SE of sd/corr, "
    "-6 fixed, -7 termination, -8 gradient; the final row repeats the last iteration as NONMEM does",
    "a model parameter is identified with a NONMEM label through its (unique) initial estimate, not through "
    "pharmpy's name map; model parsing itself is C01's subject",
    "docs/modelfit.rst: parameter_estimates = all estimated (non FIX) parameters; correlation matrix has unit "
    "diagonal; precision matrix is the inverse of the covariance matrix",
    "relations among derived matrices are judged normwise with tolerance 100*eps*cond (cond of the matrix "
    "inverted); relations between two matrices that both come from 6-digit files are judged to print precision",
    "JSON round trip judged at relative 1e-9 (the encoder's own comment promises 15 digits); index names and "
    "dtypes are counted, not judged",
    "positive 3-digit exponents are printed with an E (Python style) which real NONMEM never does for negative "
    "numbers; such numbers are generated positive only so that fields never touch",
]
MIN_NONTRIVIAL = {"quick": 150, "thorough": 2500}
REQUIRED_MONITORS = [
    "ext_table_values", "ext_special_rows", "phi_values", "matrix_file_values", "table_file_values",
    "res_parameter_estimates", "res_ofv", "res_standard_errors", "res_names", "res_iterations",
    "res_individual_estimates", "res_cov_from_file", "res_relation_cor", "res_relation_coi", "res_relation_se",
    "res_lst", "json_roundtrip", "json_file_roundtrip", "multi_table_file", "repeated_header_file", "cor_file_stratum",
]
BATCH_TIMEOUT = {"quick": 1500, "thorough": 6 * 3600}


def n_cases(tier):
    return 400 if tier == "quick" else 8000


def setup(tier):
    import pharmpy.modeling  # noqa
    import pharmpy.tools  # noqa
    import pharmpy.model.external.nonmem.table  # noqa
    import pharmpy.workflows.results  # noqa


# ------------------------------------------------------------------------------------------------ helpers
def feq(a, b):
    """exact equality of two floats (nan == nan)"""
    try:
        a = float(a)
        b = float(b)
    except (TypeError, ValueError):
        return False
    return a == b or (a != a and b != b)


def close(a, b, rel, abs_=0.0):
    try:
        a = float(a)
        b = float(b)
    except (TypeError, ValueError):
        return False
    if a != a or b != b:
        return a != a and b != b
    if a == b:
        return True
    return abs(a - b) <= max(abs_, rel * max(abs(a), abs(b)))


def ser_to_dict(s):
    return {k: s.iloc[i] for i, k in enumerate(s.index)}


class Judge:
    def __init__(self, c, sample):
        self.c = c
        self.sample = sample

    def series_equals(self, what, got, exp, monitor, key=None, rel=0.0):
        """got: pandas Series; exp: dict label->float.  Same label set, same values."""
        self.c.hit(monitor)
        if got is None:
            self.c.violate(key, f"{what}: is None, expected {len(exp)} values", {"expected": exp})
            return False
        g = ser_to_dict(got)
        if len(g) != len(got) or set(g) != set(exp):
            self.c.violate(key, f"{what}: labels {list(got.index)} != expected {list(exp)}", {"expected": exp})
            return False
        for k, v in exp.items():
            ok = feq(g[k], v) if rel == 0.0 else close(g[k], v, rel)
            if not ok:
                self.c.violate(key, f"{what}[{k}] = {g[k]!r}, file has {v!r}", {"expected": exp, "got": {str(a): float(b) for a, b in g.items()}})
                return False
        return True


def write(path, text):
    with open(path, "w", encoding="utf-8") as f:
        f.write(text)


# ------------------------------------------------------------------------------------------------ the case
def build_run(rng, d, force=None):
    """Writes one synthetic run into directory d; returns everything the oracle needs."""
    import numpy as np

    from vp.gen import nmoutput as W

    force = force or {}
    profile = force.get("profile") or rng.choices(["plain", "wide", "exp3"], [0.55, 0.3, 0.15])[0]
    spec = W.gen_spec(rng, profile, force)
    nsteps = len(spec["steps"])
    layout = {"se_all_steps": nsteps > 1 and rng.random() < 0.35, "fixed_row": rng.random() < 0.9,
              "eigen": rng.random() < 0.3}
    if spec["cov"] and spec["steps"][-1]["eval"]:
        spec["cov"] = False  # no covariance step after a pure evaluation in this generator
    if spec["cov"]:
        W.gen_uncertainty(rng, spec)
    else:
        spec["_se"] = {}
    # individuals
    nid = rng.randint(2, 7)
    base = rng.choice([1, 1, 1, 100, 99990])
    ids = [base + i * rng.choice([1, 1, 3]) for i in range(nid)]
    ids = sorted(set(ids))
    if rng.random() < 0.3:
        rng.shuffle(ids)
    allzero = set()
    if len(ids) >= 3 and rng.random() < 0.25:
        allzero = {rng.choice(ids)}
    nobs = rng.randint(1, 3)
    # long runs: more than 900 records, so that NONMEM repeats the table title and / or the label line every 900 records
    long_run = force.get("long_run", rng.random() < 0.08)
    if long_run:
        nobs = rng.randint(910 // len(ids) + 1, 2100 // len(ids))
    nrows = len(ids) * nobs
    idcol = [float(i) for i in ids for _ in range(nobs)]
    timecol = [float(k) for _ in ids for k in range(nobs)]
    # $TABLE records
    tables = []
    ntab = force.get("ntab", rng.choice([0, 1, 1, 2]))
    pool_items = ["IPRED", "CWRES", "P1", "W", "CIPREDI", "CPRED"]
    for t in range(ntab):
        noappend = rng.random() < 0.5
        items = ["ID", "TIME"] if rng.random() < 0.8 else []
        items += rng.sample(pool_items, rng.randint(1, 4))
        if noappend and rng.random() < 0.7:
            items += rng.sample(["PRED", "RES", "WRES", "DV"], rng.randint(1, 4))
        rng.shuffle(items)
        if not noappend and rng.random() < 0.3:
            # DV listed explicitly although it is appended as well: NONMEM keeps the listed column in its place and writes
            # DV a second time in the appended group
            items.insert(rng.randint(0, len(items)), "DV")
        header_mode = rng.choice(["ONEHEADER", "ONEHEADER", "", "NOTITLE"])
        if force.get("noheader") and t == 0:
            header_mode = "NOHEADER"
        options = ["NOPRINT"] + ([header_mode] if header_mode else []) + (["NOAPPEND"] if noappend else [])
        rng.shuffle(options)
        cols = list(items) + ([] if noappend else ["DV", "PRED", "RES", "WRES"])
        tables.append({"items": items, "options": options, "file": f"tab{t + 1}", "columns": cols,
                       "header_mode": header_mode})
    model_text = W.render_model(spec, tables, None)
    write(d / "run.mod", model_text)
    write(d / "data.csv", W.render_dataset(rng, ids, nobs))
    ext_text, ext_truth = W.gen_ext(rng, spec, layout)
    write(d / "run.ext", ext_text)
    phi_truth = None
    if not force.get("no_phi") and rng.random() < 0.9:
        phi_text, phi_truth = W.gen_phi(rng, spec, ids, allzero)
        write(d / "run.phi", phi_text)
    mats = {}
    if spec["cov"]:
        r = rng.random()
        if "cor_stratum" in force:
            cor_stratum = force["cor_stratum"]
        else:
            cor_stratum = rng.random() < 0.2
        if cor_stratum:
            present = rng.choice([("cov", "cor", "coi"), ("cov", "cor", "coi"), ("cor",), ("cov", "cor"), ("cor", "coi")])
        else:
            present = rng.choice([("cov", "coi"), ("cov", "coi"), ("cov",), ("cov",), ("coi",), ()])
        last = spec["steps"][-1]
        nm = [(nsteps, last["method"], spec["_cov"])]
        if layout["se_all_steps"]:
            # one table per step that had a covariance step; earlier ones hold an unrelated matrix
            nm = []
            for k, st in enumerate(spec["steps"], start=1):
                if st["eval"]:
                    continue
                if k == nsteps:
                    nm.append((k, st["method"], spec["_cov"]))
                else:
                    other = spec["_cov"] * rng.uniform(1.5, 3.0)
                    nm.append((k, st["method"], other))
        for kind in present:
            text, truth = W.gen_matrix_file(spec, kind, nm)
            write(d / f"run.{kind}", text)
            mats[kind] = truth
    tab_truth = []
    for tb in tables:
        hm = tb["header_mode"]
        zero_rows = {r for r in range(nrows) if rng.random() < 0.3}
        text, rows = W.gen_table_file(
            rng, profile, tb["columns"], nrows, number=len(tab_truth) + 1,
            with_title=hm not in ("NOTITLE", "NOHEADER"), with_labels=hm != "NOHEADER",
            seg=900 if hm in ("", "NOTITLE") else None, repeat_title=hm == "",
            fixed_cols={"ID": idcol, "TIME": timecol}, zero_rows=zero_rows)
        write(d / tb["file"], text)
        tab_truth.append({"file": tb["file"], "columns": tb["columns"], "rows": rows, "header_mode": hm})
    lst_text, lst_truth = W.gen_lst(rng, spec, model_text, ext_truth, layout)
    write(d / "run.lst", lst_text)
    return {"spec": spec, "layout": layout, "ids": ids, "allzero": allzero, "ext": ext_truth, "phi": phi_truth,
            "mats": mats, "tables": tab_truth, "lst": lst_truth, "nrows": nrows,
            "files": {p.name: p.read_text(encoding="utf-8") for p in sorted(d.iterdir()) if p.is_file()}}


def run_case(rng, idx, tier):
    from vp.gen import nmoutput as W

    c = Case()
    scratch = Path(os.environ["VERIF_SCRATCH"])
    d = scratch / f"case{idx}"
    if d.exists():
        shutil.rmtree(d)
    d.mkdir(parents=True)
    try:
        force = {}
        r = rng.random()
        if r < 0.06:
            force["noheader"] = True
            force["ntab"] = rng.choice([1, 2])
        run = build_run(rng, d, force)
        spec = run["spec"]
        c.fp = fp_of(sorted(run["files"].items()))
        elems = W.elements(spec)
        has_fix = any(e["fix"] and not e["structural"] for e in elems.values())
        has_block = any("BLOCK" in line for line in spec["omega_lines"] + spec["sigma_lines"])
        c.nontrivial = len(spec["thetas"]) >= 2 and (has_fix or has_block or len(spec["steps"]) >= 2 or spec["cov"])
        c.sample = {"files": {k: (v if len(v) < 6000 else v[:6000] + "...") for k, v in run["files"].items()},
                    "profile": spec["profile"], "layout": run["layout"]}
        check_table_level(c, d, run)
        check_results(c, d, run, rng)
        check_standalone_tables(c, d, rng, spec["profile"])
    finally:
        shutil.rmtree(d, ignore_errors=True)
    return c


# ------------------------------------------------------------------------------------------------ table level
def check_table_level(c, d, run):
    import numpy as np
    from pharmpy.model.external.nonmem.table import NONMEMTableFile

    from vp.gen import nmoutput as W

    spec = run["spec"]
    # ---------------- ext
    try:
        tf = NONMEMTableFile(d / "run.ext")
    except Exception as e:
        c.violate(None, f"NONMEMTableFile(run.ext) raised {type(e).__name__}: {e}")
        return
    if len(tf) != len(run["ext"]):
        c.violate(None, f"ext: {len(tf)} tables parsed, {len(run['ext'])} written")
        return
    for tab, tr in zip(tf, run["ext"]):
        c.hit("ext_table_header")
        if tf.table_no(tr["number"]) is not tab:
            c.violate(None, f"NONMEMTableFile.table_no({tr['number']}) does not return the table titled 'TABLE NO. {tr['number']}'")
        meta = (tab.number, tab.method, tab.goal_function, tab.problem, tab.subproblem, tab.superproblem1,
                tab.iteration1, tab.superproblem2, tab.iteration2, tab.design_optimality)
        exp_meta = (tr["number"], tr["method"], tr["goal"], 1, 0, 0, 0, 0, 0, None)
        if meta != exp_meta:
            c.violate(None, f"ext table header parsed as {meta}, written {exp_meta}")
        if bool(tab.is_evaluation) != ("(Evaluation)" in tr["method"]):
            c.violate(None, f"ext table {tr['number']}: is_evaluation={tab.is_evaluation} for method {tr['method']!r}")
        try:
            df = tab.data_frame
        except Exception as e:
            c.violate(None, f"ExtTable.data_frame raised {type(e).__name__}: {e}")
            continue
        allrows = list(tr["rows"]) + [tr["special"][k] for k in sorted(tr["special"], reverse=True)]
        c.hit("ext_table_values")
        if len(df) != len(allrows):
            c.violate(None, f"ext table {tr['number']}: {len(df)} rows parsed, {len(allrows)} written")
            continue
        cols = [W.canon(x) for x in tr["labels"]]
        if set(df.columns) != set(["ITERATION", "OBJ"] + cols):
            c.violate(None, f"ext table columns {list(df.columns)} != written labels {cols}")
            continue
        bad = None
        for i, (it, vals, obj) in enumerate(allrows):
            if df["ITERATION"].iloc[i] != it or not feq(df["OBJ"].iloc[i], obj):
                bad = (i, "ITERATION/OBJ", (df["ITERATION"].iloc[i], df["OBJ"].iloc[i]), (it, obj))
                break
            for lab in tr["labels"]:
                if not feq(df[W.canon(lab)].iloc[i], vals[lab]):
                    bad = (i, lab, df[W.canon(lab)].iloc[i], vals[lab])
                    break
            if bad:
                break
        if bad:
            c.violate(None, f"ext table {tr['number']} row {bad[0]} column {bad[1]}: parsed {bad[2]!r}, printed {bad[3]!r}")
            continue
        # accessors for the designated rows
        c.hit("ext_special_rows")
        sp = tr["special"]

        def cmp_row(name, getter, code, only_omsig=False):
            try:
                got = getter()
            except KeyError:
                if code in sp:
                    c.violate(None, f"ExtTable.{name}: KeyError although row {code} was written")
                return
            except Exception as e:
                c.violate(None, f"ExtTable.{name} raised {type(e).__name__}: {e}")
                return
            if code not in sp:
                if name == "final_parameter_estimates":
                    return
                c.violate(None, f"ExtTable.{name} returned a value although row {code} is absent")
                return
            exp = {W.canon(l): v for l, v in sp[code][1].items() if not (only_omsig and l.startswith("THETA"))}
            g = ser_to_dict(got)
            if set(g) != set(exp):
                c.violate(None, f"ExtTable.{name}: labels {list(g)} != {list(exp)}")
                return
            for k, v in exp.items():
                gv = g[k]
                if name == "fixed":
                    ok = bool(gv) == (v != 0)
                else:
                    ok = feq(gv, v)
                if not ok:
                    c.violate(None, f"ExtTable.{name}[{k}] = {gv!r}; row {code} has {v!r}")
                    return

        cmp_row("final_parameter_estimates", lambda: tab.final_parameter_estimates, W.FINAL)
        cmp_row("standard_errors", lambda: tab.standard_errors, W.SE)
        cmp_row("omega_sigma_stdcorr", lambda: tab.omega_sigma_stdcorr, W.SDCORR, True)
        cmp_row("omega_sigma_se_stdcorr", lambda: tab.omega_sigma_se_stdcorr, W.SE_SDCORR, True)
        cmp_row("fixed", lambda: tab.fixed, W.FIXED)
        try:
            if not feq(tab.final_ofv, sp[W.FINAL][2]):
                c.violate(None, f"ExtTable.final_ofv = {tab.final_ofv!r}; row -1000000000 has {sp[W.FINAL][2]!r}")
            its = [r[0] for r in tr["rows"]]
            if list(tab.iterations) != its:
                c.violate(None, f"ExtTable.iterations = {list(tab.iterations)}; written {its}")
            if tr["rows"] and not feq(tab.initial_ofv, tr["rows"][0][2]):
                c.violate(None, f"ExtTable.initial_ofv = {tab.initial_ofv!r}; iteration 0 has {tr['rows'][0][2]!r}")
            if W.CONDNUM in sp:
                first = sp[W.CONDNUM][1][tr["labels"][0]]
                if not feq(tab.condition_number, first):
                    c.violate(None, f"ExtTable.condition_number = {tab.condition_number!r}; row -1000000003 starts with {first!r}")
        except Exception as e:
            c.violate(None, f"ExtTable scalar accessor raised {type(e).__name__}: {e}")
    # ---------------- phi
    if run["phi"] is not None:
        try:
            pf = NONMEMTableFile(d / "run.phi")
        except Exception as e:
            c.violate(None, f"NONMEMTableFile(run.phi) raised {type(e).__name__}: {e}")
            pf = None
        if pf is not None:
            if len(pf) != len(run["phi"]):
                c.violate(None, f"phi: {len(pf)} tables parsed, {len(run['phi'])} written")
            else:
                for tab, tr in zip(pf, run["phi"]):
                    check_phi_table(c, tab, tr, run)
    # ---------------- cov cor coi
    for kind, truth in run["mats"].items():
        try:
            mf = NONMEMTableFile(d / f"run.{kind}")
        except Exception as e:
            c.violate(None, f"NONMEMTableFile(run.{kind}) raised {type(e).__name__}: {e}")
            continue
        if len(mf) != len(truth):
            c.violate(None, f"{kind}: {len(mf)} tables parsed, {len(truth)} written")
            continue
        for tab, tr in zip(mf, truth):
            c.hit("matrix_file_values")
            try:
                df = tab.data_frame
            except Exception as e:
                c.violate(None, f"CovTable.data_frame ({kind}) raised {type(e).__name__}: {e}")
                continue
            if tab.number != tr["number"]:
                c.violate(None, f"{kind} table number {tab.number} != {tr['number']}")
            nf = [W.canon(x) for x in tr["nonfixed"]]
            if set(df.index) != set(nf) or set(df.columns) != set(nf) or len(df.index) != len(nf):
                c.violate(None, f"{kind} table labels rows {list(df.index)} cols {list(df.columns)}; non-fixed written {nf}")
                continue
            for a in tr["nonfixed"]:
                for b in tr["nonfixed"]:
                    g = df.loc[W.canon(a), W.canon(b)]
                    if not feq(g, tr["m"][(a, b)]):
                        c.violate(None, f"{kind}[{a},{b}] parsed {g!r}, printed {tr['m'][(a, b)]!r}")
                        break
                else:
                    continue
                break
    # ---------------- $TABLE files
    for tb in run["tables"]:
        hm = tb["header_mode"]
        if hm == "NOHEADER":
            continue  # judged at results level in its own stratum
        try:
            t = NONMEMTableFile(d / tb["file"], notitle=hm == "NOTITLE")
        except Exception as e:
            c.violate(None, f"NONMEMTableFile({tb['file']}) raised {type(e).__name__}: {e}")
            continue
        c.hit("table_file_values")
        if len(set(tb["columns"])) != len(tb["columns"]):
            c.hit("not_judged:table-file-with-a-column-listed-twice")  # judged at results level (by position)
            continue
        nseg = -(-len(tb["rows"]) // 900) if hm == "" else 1  # title repeated every 900 records: one table per segment
        if len(t) != nseg:
            c.violate(None, f"$TABLE file {tb['file']}: {len(t)} tables parsed, {nseg} written ({len(tb['rows'])} records)")
            continue
        if nseg > 1:
            c.hit("table_file_900_segments")
        for k in range(nseg):
            if not compare_frame(c, f"$TABLE file {tb['file']}" + (f" segment {k}" if nseg > 1 else ""), t[k].data_frame,
                                 tb["columns"], tb["rows"][900 * k:900 * (k + 1)] if nseg > 1 else tb["rows"]):
                break


def compare_frame(c, what, df, columns, rows, key=None):
    if list(df.columns) != list(columns):
        # duplicate column names are made unique by pandas (X, X.1): not generated
        c.violate(key, f"{what}: columns {list(df.columns)} != written {list(columns)}")
        return False
    if len(df) != len(rows):
        c.violate(key, f"{what}: {len(df)} rows parsed, {len(rows)} written")
        return False
    vals = df.values
    for i, r in enumerate(rows):
        for j, v in enumerate(r):
            if not feq(vals[i][j], v):
                c.violate(key, f"{what}: row {i} column {columns[j]} parsed {vals[i][j]!r}, printed {v!r}")
                return False
    return True


def check_phi_table(c, tab, tr, run):
    c.hit("phi_values")
    if tab.number != tr["number"]:
        c.violate(None, f"phi table number {tab.number} != {tr['number']}")
    df = tab.data_frame
    if list(df.columns) != tr["names"][:-1] + ["OBJ"]:
        c.violate(None, f"phi columns {list(df.columns)} != written {tr['names']}")
        return
    if len(df) != len(tr["rows"]):
        c.violate(None, f"phi: {len(df)} rows parsed, {len(tr['rows'])} written")
        return
    neta = run["spec"]["neta"]
    for i, r in enumerate(tr["rows"]):
        exp = [r["subject_no"], r["id"]] + r["etas"] + r["etcs"] + [r["obj"]]
        got = list(df.iloc[i])
        if any(not feq(g, e) for g, e in zip(got, exp)):
            c.violate(None, f"phi row {i}: parsed {got}, printed {exp}")
            return
    # accessors (individuals with all-zero lines may be dropped: NONMEM.rst 'All zero individuals')
    try:
        iofv = tab.iofv
        etas = tab.etas
        etcs = tab.etcs
    except Exception as e:
        c.violate(None, f"PhiTable accessor raised {type(e).__name__}: {e}")
        return
    for r in tr["rows"]:
        i = r["id"]
        if i in run["allzero"]:
            c.hit("not_judged:all-zero-individual")
            continue
        if i not in iofv.index or not feq(iofv.loc[i], r["obj"]):
            c.violate(None, f"PhiTable.iofv[{i}] != printed {r['obj']!r}")
            return
        if i not in etas.index or any(not feq(g, e) for g, e in zip(list(etas.loc[i]), r["etas"])):
            c.violate(None, f"PhiTable.etas[{i}] = {list(etas.loc[i]) if i in etas.index else None}, printed {r['etas']}")
            return
        m = etcs.loc[i].values if i in etcs.index else None
        k = 0
        for a in range(neta):
            for b in range(a + 1):
                if m is None or not feq(m[a][b], r["etcs"][k]) or not feq(m[b][a], r["etcs"][k]):
                    c.violate(None, f"PhiTable.etcs[{i}][{a + 1},{b + 1}] != printed ETC({a + 1},{b + 1}) = {r['etcs'][k]!r}")
                    return
                k += 1


# ------------------------------------------------------------------------------------------------ results level
COR_KEY = "C20/cor-values-readonly"
NOHEADER_KEY = "C20/noheader-first-record-as-labels"
JSON_KEY = "C20/json-15-decimals"


def check_results(c, d, run, rng):
    import numpy as np
    from pharmpy.modeling import read_model
    from pharmpy.tools import read_modelfit_results

    from vp.gen import nmoutput as W

    spec = run["spec"]
    elems = W.elements(spec)
    cor_present = "cor" in run["mats"]
    if cor_present:
        c.hit("cor_file_stratum")
    res = None
    try:
        res = read_modelfit_results(d / "run.mod")
    except ValueError as e:
        if cor_present and "read-only" in str(e):
            # delta check: the same run without the .cor file
            os.rename(d / "run.cor", d / "run.cor.removed")
            try:
                res = read_modelfit_results(d / "run.mod")
            except Exception as e2:
                c.violate(None, f"read_modelfit_results raised {type(e2).__name__}: {e2} (also without .cor)")
                return
            c.violate(COR_KEY, f"read_modelfit_results raised ValueError: {e} on a run with a .cor file; the same "
                      "run without the .cor file is read")
            cor_present = False
        else:
            c.violate(None, f"read_modelfit_results raised ValueError: {e}")
            return
    except Exception as e:
        import traceback

        c.violate(None, f"read_modelfit_results raised {type(e).__name__}: {e}", traceback.format_exc()[-1500:])
        return
    if res is None:
        c.violate(None, "read_modelfit_results returned None for a complete run")
        return
    model = read_model(d / "run.mod")

    # ---- names: NONMEM label -> model parameter name through the unique initial estimates
    init2name = {}
    for p in model.parameters:
        init2name.setdefault(float(p.init), []).append(p.name)
    name_of = {}
    for lab, e in elems.items():
        if e["structural"]:
            continue
        cand = init2name.get(e["init"], [])
        if len(cand) != 1:
            c.hit("not_judged:model-parameters-not-identifiable")
            c.skipped = None
            return
        name_of[lab] = cand[0]
    c.hit("res_names")
    for lab, e in elems.items():
        if not e["structural"] and e["name"] and name_of[lab] != e["name"]:
            c.hit("not_judged:comment-name-not-used-by-model")
    J = Judge(c, None)
    last = run["ext"][-1]
    labels = [W.canon(x) for x in last["labels"]]
    raw = dict(zip(labels, last["labels"]))
    nonfixed = [lab for lab in labels if not elems[lab]["fix"]]
    omsig = [lab for lab in nonfixed if not lab.startswith("THETA")]
    fin = last["special"][W.FINAL]

    # ---- final estimates and OFV
    exp_pe = {name_of[lab]: fin[1][raw[lab]] for lab in nonfixed}
    ok_pe = J.series_equals("parameter_estimates", res.parameter_estimates, exp_pe, "res_parameter_estimates")
    c.hit("res_ofv")
    if not feq(res.ofv, fin[2]):
        c.violate(None, f"ofv = {res.ofv!r}; row -1000000000 of the last table has {fin[2]!r}")
    exp_sd = dict(exp_pe)
    exp_sd.update({name_of[lab]: last["special"][W.SDCORR][1][raw[lab]] for lab in omsig})
    J.series_equals("parameter_estimates_sdcorr", res.parameter_estimates_sdcorr, exp_sd, "res_sdcorr")

    # ---- standard errors
    has_se = W.SE in last["special"]
    if has_se:
        exp_se = {name_of[lab]: last["special"][W.SE][1][raw[lab]] for lab in nonfixed}
        ok_se = J.series_equals("standard_errors", res.standard_errors, exp_se, "res_standard_errors")
        exp_sesd = dict(exp_se)
        exp_sesd.update({name_of[lab]: last["special"][W.SE_SDCORR][1][raw[lab]] for lab in omsig})
        J.series_equals("standard_errors_sdcorr", res.standard_errors_sdcorr, exp_sesd, "res_se_sdcorr")
        if ok_se and ok_pe:
            # 'relative standard error' = se / estimate; the docs do not fix the sign convention -> magnitudes
            rse = res.relative_standard_errors
            c.hit("res_rse")
            if rse is None or set(rse.index) != set(exp_se):
                c.violate(None, f"relative_standard_errors labels {None if rse is None else list(rse.index)} != {list(exp_se)}")
            else:
                for k in exp_se:
                    with np.errstate(all="ignore"):
                        e = abs(float(np.float64(exp_se[k]) / np.float64(exp_pe[k])))
                    if not close(abs(float(rse[k])), e, 1e-12):
                        c.violate(None, f"relative_standard_errors[{k}] = {rse[k]!r}; se/estimate = {exp_se[k]!r}/{exp_pe[k]!r}")
                        break
    else:
        c.hit("res_no_se")
        se = res.standard_errors
        if se is not None and not all(v != v for v in se.values):
            c.violate(None, f"standard_errors reported {dict(se)} although the ext file has no row -1000000001")

    # ---- iterations
    check_iterations(c, res, run, name_of, elems)

    # ---- individual results
    check_individuals(c, res, run, model, name_of, exp_pe, elems)

    # ---- uncertainty matrices
    check_matrices(c, res, run, name_of, nonfixed, raw, cor_present, has_se)

    # ---- lst
    check_lst(c, res, run)

    # ---- $TABLE derived frames
    check_predictions(c, d, res, run)

    # ---- JSON
    check_json(c, res)
    check_json_files(c, res, d)


def check_iterations(c, res, run, name_of, elems):
    from vp.gen import nmoutput as W

    c.hit("res_iterations")
    oi = res.ofv_iterations
    pi = res.parameter_estimates_iterations
    if oi is None or pi is None:
        c.violate(None, "ofv_iterations / parameter_estimates_iterations is None")
        return
    for k, tr in enumerate(run["ext"], start=1):
        if not tr["rows"]:
            c.hit("not_judged:iterations-of-evaluation-step")
            continue
        nonfixed = [lab for lab in tr["labels"] if not elems[W.canon(lab)]["fix"]]
        try:
            o = oi.loc[k]
            p = pi.loc[k]
        except KeyError:
            c.violate(None, f"ofv_iterations has no entries for estimation step {k}")
            return
        its = [r[0] for r in tr["rows"]]
        if list(o.index) != its or list(p.index) != its:
            c.violate(None, f"step {k}: iteration index ofv {list(o.index)} / estimates {list(p.index)}; ext table has {its}")
            return
        for it, vals, obj in tr["rows"]:
            if not feq(o.loc[it], obj):
                c.violate(None, f"ofv_iterations[{k},{it}] = {o.loc[it]!r}; ext has {obj!r}")
                return
        cols = {name_of[W.canon(lab)]: lab for lab in nonfixed}
        if set(p.columns) != set(cols):
            c.violate(None, f"parameter_estimates_iterations columns {list(p.columns)} != non-fixed parameters {list(cols)}")
            return
        for it, vals, obj in tr["rows"]:
            for name, lab in cols.items():
                if not feq(p.loc[it, name], vals[lab]):
                    c.violate(None, f"parameter_estimates_iterations[{k},{it}][{name}] = {p.loc[it, name]!r}; ext column {lab} has {vals[lab]!r}")
                    return


def check_individuals(c, res, run, model, name_of, exp_pe, elems):
    import numpy as np

    spec = run["spec"]
    if run["phi"] is None:
        c.hit("res_no_phi")
        if res.individual_estimates is not None or res.individual_ofv is not None:
            c.violate(None, "individual results reported without a phi file")
        return
    etas = model.random_variables.etas
    names = list(etas.names)
    neta = spec["neta"]
    # the i-th eta of the model must carry the variance parameter identified with OMEGA(i,i)
    cm = etas.covariance_matrix
    for i in range(neta):
        if len(names) != neta or str(cm[i, i]) != name_of.get(f"OMEGA({i + 1},{i + 1})"):
            c.hit("not_judged:eta-order-not-identifiable")
            return
    tr = run["phi"][-1]
    c.hit("res_individual_estimates")
    ie, iofv, iec = res.individual_estimates, res.individual_ofv, res.individual_estimates_covariance
    if ie is None or iofv is None or iec is None:
        c.violate(None, "individual_estimates / individual_ofv / individual_estimates_covariance is None although run.phi exists")
        return
    if list(ie.columns) != names:
        c.violate(None, f"individual_estimates columns {list(ie.columns)} != model etas {names}")
        return
    # PHI = MU + ETA  (NONMEM.rst)
    mu = {}
    if tr["prefix"] == "PHI":
        for i, k in spec["mu"].items():
            th = spec["thetas"][k - 1]
            nm = name_of[th["label"]]
            mu[i] = exp_pe[nm] if nm in exp_pe else th["init"]
    for r in tr["rows"]:
        i = r["id"]
        if i in run["allzero"]:
            c.hit("not_judged:all-zero-individual")
            continue
        if i not in ie.index or i not in iofv.index or i not in iec.index:
            c.violate(None, f"individual {i} missing from individual results (index {list(ie.index)})")
            return
        if not feq(iofv.loc[i], r["obj"]):
            c.violate(None, f"individual_ofv[{i}] = {iofv.loc[i]!r}; phi has {r['obj']!r}")
            return
        for e in range(neta):
            exp = r["etas"][e]
            got = ie.loc[i, names[e]]
            if (e + 1) in mu:
                exp = float(np.float64(exp) - np.float64(mu[e + 1]))
                ok = close(got, exp, 1e-12, abs_=1e-12 * max(abs(r["etas"][e]), abs(mu[e + 1])))
                c.hit("res_phi_minus_mu")
            else:
                ok = feq(got, exp)
            if not ok:
                c.violate(None, f"individual_estimates[{i},{names[e]}] = {got!r}; phi {tr['prefix']}({e + 1}) = {r['etas'][e]!r}"
                          + (f", MU_{e + 1} = {mu[e + 1]!r}" if (e + 1) in mu else ""))
                return
        m = iec.loc[i]
        if list(m.index) != names or list(m.columns) != names:
            c.violate(None, f"individual_estimates_covariance[{i}] labels {list(m.index)} != {names}")
            return
        k = 0
        for a in range(neta):
            for b in range(a + 1):
                if not feq(m.iloc[a, b], r["etcs"][k]) or not feq(m.iloc[b, a], r["etcs"][k]):
                    c.violate(None, f"individual_estimates_covariance[{i}][{a + 1},{b + 1}] = {m.iloc[a, b]!r}; phi has {r['etcs'][k]!r}")
                    return
                k += 1


def check_matrices(c, res, run, name_of, nonfixed, raw, cor_present, has_se):
    import numpy as np

    spec = run["spec"]
    present = set(run["mats"]) - (set() if cor_present else {"cor"})
    cov, cor, coi = res.covariance_matrix, res.correlation_matrix, res.precision_matrix
    if not spec["cov"] or not present:
        c.hit("res_no_matrix_files")
        if not spec["cov"] and any(x is not None for x in (cov, cor, coi)):
            c.violate(None, "uncertainty matrices reported for a run without covariance step")
        return
    names = [name_of[lab] for lab in nonfixed]
    n = len(names)

    def file_matrix(kind):
        tr = run["mats"][kind][-1]
        return np.array([[tr["m"][(raw[a], raw[b])] for b in nonfixed] for a in nonfixed])

    def frame(what, df):
        if df is None:
            c.violate(None, f"{what} is None although files {sorted(present)} exist")
            return None
        if set(df.index) != set(names) or set(df.columns) != set(names) or len(df.index) != n or list(df.index) != list(df.columns):
            c.violate(None, f"{what}: labels rows {list(df.index)} cols {list(df.columns)}; estimated parameters {names}")
            return None
        return df.loc[names, names].values.astype(float)

    G = {"cov": frame("covariance_matrix", cov), "cor": frame("correlation_matrix", cor),
         "coi": frame("precision_matrix", coi)}
    if any(v is None for v in G.values()):
        return
    eps = 2.220446049250313e-16

    def maxrel(a, b):
        den = np.max(np.abs(b))
        return float(np.max(np.abs(a - b)) / den) if den > 0 else float(np.max(np.abs(a - b)))

    # ---- matrices that come from a file equal the printed numbers
    # the matrix pharmpy takes as covariance: the file, else D cor D (D = ext standard errors), else inv(coi);
    # if that matrix is not clearly PSD pharmpy replaces it by the nearest PSD matrix -> looser judgement
    ext_se = np.array([run["ext"][-1]["special"][-1000000001][1][raw[lab]] for lab in nonfixed]) if has_se else None
    with np.errstate(all="ignore"):
        if "cov" in present:
            S = file_matrix("cov")
        elif "cor" in present and ext_se is not None:
            S = file_matrix("cor")
            np.fill_diagonal(S, 1.0)
            S = S * np.outer(ext_se, ext_se)
        else:
            try:
                S = np.linalg.inv(file_matrix("coi"))
            except np.linalg.LinAlgError:
                S = np.full((n, n), np.nan)
    if not np.all(np.isfinite(S)):
        c.hit("not_judged:covariance-source-not-finite")
        return
    ev = np.linalg.eigvalsh((S + S.T) / 2)
    psd_clear = bool(ev[0] > 1e-10 * ev[-1])
    if "cov" in present:
        F = S
        if psd_clear:
            c.hit("res_cov_from_file")
            if not np.array_equal(G["cov"], F):
                i, j = np.argwhere(G["cov"] != F)[0]
                c.violate(None, f"covariance_matrix[{names[i]},{names[j]}] = {G['cov'][i, j]!r}; run.cov has {F[i, j]!r}")
        else:
            # pharmpy may replace an indefinite printed matrix by the nearest PSD one (documented in the code only)
            c.hit("not_judged:printed-cov-not-clearly-psd")
            bound = 10 * n * abs(min(ev[0], 0.0)) + 1e-9 * ev[-1]
            if np.max(np.abs(G["cov"] - F)) > bound:
                c.violate(None, f"covariance_matrix differs from run.cov by {np.max(np.abs(G['cov'] - F))!r} (lambda_min of the printed matrix {ev[0]!r})")
    if "cor" in present:
        F = file_matrix("cor")
        np.fill_diagonal(F, 1.0)
        c.hit("res_cor_from_file")
        if not np.array_equal(G["cor"], F):
            i, j = np.argwhere(G["cor"] != F)[0]
            c.violate(None, f"correlation_matrix[{names[i]},{names[j]}] = {G['cor'][i, j]!r}; run.cor has {F[i, j]!r} (diagonal must be 1)")
    if "coi" in present:
        F = file_matrix("coi")
        c.hit("res_coi_from_file")
        if not np.array_equal(G["coi"], F):
            i, j = np.argwhere(G["coi"] != F)[0]
            c.violate(None, f"precision_matrix[{names[i]},{names[j]}] = {G['coi'][i, j]!r}; run.coi has {F[i, j]!r}")

    # ---- defining relations among what is reported together
    C = G["cov"]
    sd = np.sqrt(np.diag(C))
    if not np.all(np.isfinite(sd)) or np.any(sd <= 0):
        c.hit("not_judged:degenerate-reported-cov")
        return
    # scaled inversion is the better conditioned reference
    R = C / np.outer(sd, sd)
    with np.errstate(all="ignore"):
        condC = float(np.linalg.cond(C))
        condR = float(np.linalg.cond(R))
    # cor = D^-1 cov D^-1
    both_files = "cov" in present and "cor" in present
    tol = 3e-5 if both_files else 1e-12
    if "cor" in present and "cov" not in present:
        # cov was derived from cor and the ext standard errors: cov = D cor D, so cor is recovered to rounding
        tol = 1e-12
    c.hit("res_relation_cor")
    if not psd_clear:
        c.hit("not_judged:relation-after-psd-repair")
    elif np.max(np.abs(G["cor"] - R)) > tol:
        i, j = np.unravel_index(np.argmax(np.abs(G["cor"] - R)), R.shape)
        c.violate(None, f"correlation_matrix[{names[i]},{names[j]}] = {G['cor'][i, j]!r} but cov/(sd sd) = {R[i, j]!r} "
                  f"(files present: {sorted(present)})")
    if np.max(np.abs(np.diag(G["cor"]) - 1.0)) > 1e-12:
        c.violate(None, f"correlation_matrix diagonal {list(np.diag(G['cor']))} is not 1")
    # coi = cov^-1
    if not np.isfinite(condC) or not np.isfinite(condR):
        c.hit("not_judged:singular-reported-cov")
    else:
        if "coi" in present and ("cov" in present or "cor" in present):
            t = 4 * n * 5e-6 * condR  # both sides printed with 6 digits
            derived = False
        else:
            # coi = inv(cov) or cov = inv(coi) computed by pharmpy
            t = 100 * eps * condC
            derived = True
        if t >= 1e-2 or not psd_clear:
            c.hit("not_judged:coi-relation-tolerance-vacuous")
        else:
            c.hit("res_relation_coi")
            if derived:
                c.hit("res_relation_coi_derived")
            with np.errstate(all="ignore"):
                ref = np.linalg.inv(R) / np.outer(sd, sd)
            err = maxrel(G["coi"], ref)
            # residual form as a second opinion (avoids judging by a badly conditioned reference)
            resid = float(np.max(np.abs((G["coi"] * np.outer(sd, sd)) @ R - np.eye(n))))
            if err > t and resid > t * n:
                c.violate(None, f"precision_matrix is not the inverse of covariance_matrix: max rel deviation {err:.3e}, "
                          f"residual {resid:.3e}, tolerance {t:.3e} (cond {condC:.3e}; files present {sorted(present)})")
    # se = sqrt(diag cov)
    if has_se and res.standard_errors is not None and set(res.standard_errors.index) == set(names):
        se = res.standard_errors.loc[names].values.astype(float)
        c.hit("res_relation_se")
        if "cov" in present:
            t = 2e-5  # both printed with 6 digits
        elif "cor" in present:
            t = 1e-12  # cov = D cor D with D from the ext standard errors
        else:
            t = 4 * n * 5e-6 * condR if np.isfinite(condR) else float("inf")  # cov = inv(printed coi)
        if not psd_clear:
            c.hit("not_judged:relation-after-psd-repair")
        elif t >= 1e-2:
            c.hit("not_judged:se-relation-tolerance-vacuous")
        elif np.max(np.abs(se - sd) / sd) > t:
            i = int(np.argmax(np.abs(se - sd) / sd))
            c.violate(None, f"standard_errors[{names[i]}] = {se[i]!r} but sqrt(cov diag) = {sd[i]!r} (files present {sorted(present)})")


def check_lst(c, res, run):
    lt = run["lst"]
    spec = run["spec"]
    c.hit("res_lst")
    if not feq(res.runtime_total, lt["runtime_total"]):
        c.violate(None, f"runtime_total = {res.runtime_total!r}; lst start/stop differ by {lt['runtime_total']!r} s")
    steps = lt["steps"]

    def it_series(name, key, cmp=feq):
        s = getattr(res, name)
        if s is None:
            c.violate(None, f"{name} is None")
            return
        d = ser_to_dict(s)
        for st, sp in zip(steps, spec["steps"]):
            if sp["eval"]:
                c.hit("not_judged:lst-of-evaluation-step")
                continue
            exp = st[key]
            if exp is None and key in ("fevals", "sigdigs"):
                c.hit("not_judged:lst-classical-only-item")
                continue
            if st["number"] not in d:
                c.violate(None, f"{name} has no entry for table {st['number']}: {d}")
                return
            g = d[st["number"]]
            if isinstance(exp, float) and exp != exp:
                ok = g is None or g != g
            else:
                ok = (g is None or g != g) if exp is None else (g == exp)
            if not ok:
                c.violate(None, f"{name}[{st['number']}] = {g!r}; lst says {exp!r}")
                return

    it_series("minimization_successful_iterations", "success")
    it_series("function_evaluations_iterations", "fevals")
    it_series("significant_digits_iterations", "sigdigs")
    it_series("estimation_runtime_iterations", "runtime")
    it_series("termination_cause_iterations", "cause")
    if any(sp["eval"] for sp in spec["steps"]):
        c.hit("not_judged:scalar-lst-items-with-evaluation-step")
    else:
        st = steps[-1]
        if res.minimization_successful != st["success"]:
            c.violate(None, f"minimization_successful = {res.minimization_successful!r}; last step in lst: {st['success']!r}")
        if st["fevals"] is not None and res.function_evaluations != st["fevals"]:
            c.violate(None, f"function_evaluations = {res.function_evaluations!r}; lst says {st['fevals']!r}")
        if st["sigdigs"] is not None and not feq(res.significant_digits, st["sigdigs"]):
            c.violate(None, f"significant_digits = {res.significant_digits!r}; lst says {st['sigdigs']!r}")
        if res.termination_cause != st["cause"]:
            c.violate(None, f"termination_cause = {res.termination_cause!r}; lst says {st['cause']!r}")
        if not feq(res.estimation_runtime, st["runtime"]):
            c.violate(None, f"estimation_runtime = {res.estimation_runtime!r}; lst says {st['runtime']!r}")
        c.hit("not_judged:log_likelihood-undocumented")
    if spec["steps"] and not spec["steps"][-1]["eval"]:
        # documented only as 'Covariance status': a reported successful step must say True, a run without
        # $COVARIANCE must not
        if spec["cov"] and res.covstep_successful is not True:
            c.violate(None, f"covstep_successful = {res.covstep_successful!r} although $COVARIANCE ran (lst reports covariance time, ext has SE rows)")
        if not spec["cov"] and res.covstep_successful is True:
            c.violate(None, "covstep_successful = True for a run without $COVARIANCE")


def _prediction_mismatches(res, run):
    """Messages for every disagreement between res.predictions / res.residuals and the $TABLE files."""
    tabs = run["tables"]
    pred_cols = ["PRED", "CIPREDI", "CPRED", "IPRED"]
    res_cols = ["RES", "WRES", "CWRES"]
    first = {}
    for tb in tabs:
        for j, col in enumerate(tb["columns"]):
            if col in pred_cols + res_cols and col not in first:
                first[col] = (tb, j)
    # any NOHEADER table matters: its ID/TIME columns are merged first and fix the length of the frame
    noheader = any(tb["header_mode"] == "NOHEADER" for tb in tabs)
    exp_pred = [col for col in pred_cols if col in first]
    exp_res = [col for col in res_cols if col in first]
    n = run["nrows"]
    msgs = []
    zero_rows = 0
    for what, cols, df in (("predictions", exp_pred, res.predictions), ("residuals", exp_res, res.residuals)):
        if not cols:
            if df is not None:
                msgs.append(f"{what} reported although no $TABLE lists such a column")
            continue
        if df is None:
            msgs.append(f"{what} is None although $TABLE files list {cols}")
            continue
        if set(df.columns) != set(cols):
            msgs.append(f"{what} columns {list(df.columns)} != {cols}")
            continue
        rows = list(range(n))
        if what == "residuals":
            # records whose residuals are all zero are non-observations and may be dropped
            rows = [r for r in range(n) if any(first[col][0]["rows"][r][first[col][1]] != 0 for col in cols)]
            zero_rows = n - len(rows)
        missing = [r for r in rows if r not in df.index]
        if missing:
            msgs.append(f"{what}: records {missing[:6]} (0-based) missing; index {list(df.index)[:8]} for {n} records")
            continue
        if what == "predictions" and len(df) != n:
            msgs.append(f"{what}: {len(df)} rows for {n} records")
            continue
        for r in rows:
            bad = [col for col in cols if not feq(df.loc[r, col], first[col][0]["rows"][r][first[col][1]])]
            if bad:
                col = bad[0]
                tb, j = first[col]
                msgs.append(f"{what}[{r},{col}] = {df.loc[r, col]!r}; {tb['file']} has {tb['rows'][r][j]!r}")
                break
    return msgs, noheader, zero_rows


def check_predictions(c, d, res, run):
    from pharmpy.tools import read_modelfit_results

    from vp.gen import nmoutput as W

    if not run["tables"]:
        return
    msgs, noheader, zero_rows = _prediction_mismatches(res, run)
    c.hit("res_predictions")
    if zero_rows:
        c.hit("not_judged:residual-rows-all-zero", zero_rows)
    if noheader:
        c.hit("noheader_stratum")
    if not msgs:
        return
    key = None
    if noheader:
        # delta check: the same run with the NOHEADER tables written with their label line (NOTITLE)
        try:
            mod = (d / "run.mod").read_text()
            saved = {"run.mod": mod}
            write(d / "run.mod", mod.replace("NOHEADER", "NOTITLE"))
            for tb in run["tables"]:
                if tb["header_mode"] == "NOHEADER":
                    t = (d / tb["file"]).read_text()
                    saved[tb["file"]] = t
                    write(d / tb["file"], W.theader(tb["columns"]) + t)
            try:
                res2 = read_modelfit_results(d / "run.mod")
                msgs2, _, _ = _prediction_mismatches(res2, run)
            finally:
                for name, t in saved.items():
                    write(d / name, t)
            if not msgs2:
                key = NOHEADER_KEY
        except Exception:
            key = None
    for m in msgs[:2]:
        c.violate(key, m + (" [a $TABLE of the run has NOHEADER; with a label line in that file the values are read]" if key else ""))


# ------------------------------------------------------------------------------------------------ JSON
def check_json_files(c, res, d):
    """The file forms of the same round trip: to_json(path), to_json(path, lzma=True) (writes <path>.xz) and
    read_results on the file, on the directory that holds results.json and on the compressed file must give what
    read_results(to_json()) gives (which check_json judges against the object)."""
    from pharmpy.workflows.results import read_results

    try:
        ref = read_results(res.to_json()).to_json()
    except Exception:
        return  # reported by check_json
    sub = d / "jsonrt"
    sub.mkdir(exist_ok=True)
    forms = [("file", lambda: res.to_json(sub / "results.json"), sub / "results.json"),
             ("directory", None, sub),
             ("lzma file", lambda: res.to_json(sub / "res2.json", lzma=True), sub / "res2.json.xz")]
    for what, writer, target in forms:
        c.hit("json_file_roundtrip")
        try:
            if writer is not None:
                writer()
            back = read_results(target)
        except Exception as e:
            c.violate(None, f"JSON round trip through a {what} raised {type(e).__name__}: {str(e)[:150]}")
            continue
        try:
            again = back.to_json()
        except Exception as e:
            c.violate(None, f"results read back from a {what} cannot be encoded again: {type(e).__name__}: {str(e)[:150]}")
            continue
        if again != ref:
            k = next((i for i, (x, y) in enumerate(zip(again, ref)) if x != y), min(len(again), len(ref)))
            c.violate(None, f"JSON round trip through a {what} differs from the round trip through a string near "
                            f"{again[max(0, k - 40):k + 40]!r} vs {ref[max(0, k - 40):k + 40]!r}")


def check_json(c, res):
    import numpy as np
    import pandas as pd
    from pharmpy.workflows.results import read_results

    c.hit("json_roundtrip")
    try:
        s = res.to_json()
        back = read_results(s)
    except Exception as e:
        c.violate(None, f"to_json/read_results raised {type(e).__name__}: {e}")
        return
    if type(back) is not type(res):
        c.violate(None, f"read_results returned {type(back).__name__}")
        return
    da, db = res.to_dict(), back.to_dict()
    if set(da) != set(db):
        c.violate(None, f"JSON round trip changed the attribute set: {sorted(set(da) ^ set(db))}")
        return
    diffs = _json_diffs(c, da, db, count=True)
    if not diffs:
        c.hit("json_equal")
        return
    # delta check: the same object encoded with the exact doubles instead of pandas' 15 decimals
    import json as _json

    import pharmpy.workflows.results as WR

    orig = WR._df_to_json

    def exact(df):
        d = orig(df)
        for col in df.columns:
            column = df[col]
            if isinstance(column, pd.Series) and column.dtype.kind == "f":
                for rec, v in zip(d["data"], column.tolist()):
                    if v == v and abs(v) != float("inf"):
                        rec[str(col)] = v
        return d

    diffs2 = None
    try:
        WR._df_to_json = exact
        back2 = read_results(res.to_json())
        diffs2 = _json_diffs(c, da, back2.to_dict(), count=False)
    except Exception:
        diffs2 = None
    finally:
        WR._df_to_json = orig
    a = diffs[0]
    small = all(isinstance(x[2], float) and isinstance(x[3], float) and abs(x[3] - x[2]) <= 1.0000001e-15 for x in diffs)
    if diffs2 == [] and small:
        rel = abs(a[3] - a[2]) / abs(a[2]) if a[2] else float("inf")
        c.violate(JSON_KEY, f"JSON round trip changed {a[0]}{a[1]}: {a[2]!r} -> {a[3]!r} (relative {rel:.2e}; "
                  f"{len(diffs)} values, each moved by <= 1e-15 = rounding to 15 decimals; with exact doubles in the "
                  "encoder the round trip is equal)", [list(map(repr, u)) for u in diffs[:10]])
    else:
        c.violate(None, f"JSON round trip changed {a[0]}{a[1]}: {a[2]!r} -> {a[3]!r} ({len(diffs)} differences)",
                  [list(map(repr, u)) for u in diffs[:10]])


def _json_diffs(c, da, db, count):
    import numpy as np
    import pandas as pd

    diffs = []  # (attr, where, original, back)

    def hit(name):
        if count:
            c.hit(name)

    def cmp_scalar(attr, where, a, b):
        if a is None or b is None:
            if not (a is None and b is None):
                # None <-> NaN is how JSON null comes back for floats: counted, not judged
                if (a is None and isinstance(b, float) and b != b) or (b is None and isinstance(a, float) and a != a):
                    hit("json_meta:none-nan")
                else:
                    diffs.append((attr, where, a, b))
            return
        if isinstance(a, (bool, np.bool_)) or isinstance(b, (bool, np.bool_)) or isinstance(a, str) or isinstance(b, str):
            if a != b:
                diffs.append((attr, where, a, b))
            return
        try:
            fa, fb = float(a), float(b)
        except (TypeError, ValueError):
            if a != b:
                diffs.append((attr, where, a, b))
            return
        if fa in (float("inf"), float("-inf")):
            hit("not_judged:json-has-no-infinity")
            return
        if not close(fa, fb, 1e-9):
            diffs.append((attr, where, fa, fb))

    def labels(ix):
        return [tuple(x) if isinstance(x, tuple) else x for x in ix]

    def cmp_obj(attr, a, b, where=""):
        if isinstance(a, pd.DataFrame):
            if not isinstance(b, pd.DataFrame):
                diffs.append((attr, where + "type", type(a).__name__, type(b).__name__))
                return
            if labels(a.index) != labels(b.index) or [str(x) for x in a.columns] != [str(x) for x in b.columns]:
                diffs.append((attr, where + "labels", [labels(a.index)[:8], list(a.columns)[:8]], [labels(b.index)[:8], list(b.columns)[:8]]))
                return
            if list(a.index.names) != list(b.index.names):
                hit("json_meta:index-name")
            for i in range(a.shape[0]):
                for j in range(a.shape[1]):
                    cmp_scalar(attr, f"{where}[{labels(a.index)[i]},{a.columns[j]}]", a.iat[i, j], b.iat[i, j])
        elif isinstance(a, pd.Series):
            if not isinstance(b, pd.Series):
                diffs.append((attr, where + "type", type(a).__name__, type(b).__name__))
                return
            if labels(a.index) != labels(b.index):
                diffs.append((attr, where + "labels", labels(a.index)[:8], labels(b.index)[:8]))
                return
            if a.name != b.name or list(a.index.names) != list(b.index.names):
                hit("json_meta:series-name")
            for i in range(len(a)):
                x, y = a.iloc[i], b.iloc[i]
                if isinstance(x, pd.DataFrame):
                    cmp_obj(attr, x, y, f"{where}[{labels(a.index)[i]}]")
                else:
                    cmp_scalar(attr, f"{where}[{labels(a.index)[i]}]", x, y)
        elif isinstance(a, (list, tuple)):
            if not isinstance(b, (list, tuple)) or len(a) != len(b):
                diffs.append((attr, where, a, b))
                return
            for i, (x, y) in enumerate(zip(a, b)):
                cmp_obj(attr, x, y, f"{where}[{i}]")
        elif hasattr(a, "to_dict") and not isinstance(a, (float, int, str)) and a.__class__.__name__ == "Log":
            if type(a) is not type(b) or a.to_dict() != b.to_dict():
                hit("json_meta:log")
        else:
            cmp_scalar(attr, where, a, b)

    for k in da:
        try:
            cmp_obj(k, da[k], db[k])
        except Exception as e:
            diffs.append((k, "compare-error", type(e).__name__, str(e)[:200]))
    return diffs


# ------------------------------------------------------------------------------------------------ stand-alone $TABLE files
def check_standalone_tables(c, d, rng, profile):
    from pharmpy.model.external.nonmem.table import NONMEMTableFile

    from vp.gen import nmoutput as W

    prof = profile
    # (a) several tables in one file (e.g. one per subproblem), each with its own title and header
    k = rng.randint(2, 4)
    ncol = rng.randint(1, 6)
    cols = rng.sample(["ID", "TIME", "DV", "IPRED", "CWRES", "MYVAR", "X_1", "PRED", "A1"], ncol)
    text, truth = "", []
    same_no = rng.random() < 0.5
    for t in range(k):
        no = 1 if same_no else t + 1
        tx, rows = W.gen_table_file(rng, prof, cols, rng.randint(1, 6), number=no)
        text += tx
        truth.append((no, rows))
    write(d / "multitab", text)
    try:
        tf = NONMEMTableFile(d / "multitab")
    except Exception as e:
        c.violate(None, f"NONMEMTableFile(multi table file) raised {type(e).__name__}: {e}", text[:1500])
        tf = None
    if tf is not None:
        c.hit("multi_table_file")
        if len(tf) != k:
            c.violate(None, f"file with {k} tables parsed into {len(tf)}", text[:1500])
        else:
            for tab, (no, rows) in zip(tf, truth):
                if tab.number != no:
                    c.violate(None, f"$TABLE title 'TABLE NO. {no:2d}' parsed as number {tab.number}")
                    break
                if not compare_frame(c, f"multi table file, table {no}", tab.data_frame, cols, rows):
                    break
    # (b) more than 900 records: header lines repeated (1 of 4 cases; the files are larger)
    if rng.random() < 0.25:
        n = rng.randint(901, 1900)
        cols = rng.sample(["ID", "TIME", "DV", "IPRED", "CWRES"], rng.randint(2, 3))
        # NOTITLE: only the label line is repeated
        tx, rows = W.gen_table_file(rng, prof, cols, n, with_title=False, seg=900)
        write(d / "longtab", tx)
        try:
            tf = NONMEMTableFile(d / "longtab", notitle=True)
            c.hit("repeated_header_file")
            if len(tf) != 1:
                c.violate(None, f"NOTITLE file with repeated label lines parsed into {len(tf)} tables")
            else:
                compare_frame(c, f"NOTITLE file with {n} records and repeated label lines", tf[0].data_frame, cols, rows)
        except Exception as e:
            c.violate(None, f"NONMEMTableFile(NOTITLE, repeated labels) raised {type(e).__name__}: {e}")
        # default: title and labels repeated every 900 records -> one table per segment, all numbered alike
        tx, rows = W.gen_table_file(rng, prof, cols, n, with_title=True, seg=900, repeat_title=True)
        write(d / "longtab2", tx)
        try:
            tf = NONMEMTableFile(d / "longtab2")
            c.hit("repeated_header_file")
            segs = [rows[i:i + 900] for i in range(0, n, 900)]
            if len(tf) != len(segs):
                c.violate(None, f"file with title+labels repeated every 900 of {n} records parsed into {len(tf)} tables")
            else:
                for tab, sr in zip(tf, segs):
                    if not compare_frame(c, "900-record segment", tab.data_frame, cols, sr):
                        break
        except Exception as e:
            c.violate(None, f"NONMEMTableFile(repeated title+labels) raised {type(e).__name__}: {e}")
