"""C05 Compartmental system graph and its differential equations always agree.

Oracle: a SHADOW dict-of-edges (vp.gen.graphs.Shadow) updated in lock-step with every builder call from the
documented meaning of that call.  The shadow never looks at pharmpy's graph, `_order_compartments`,
`compartmental_matrix` or `get_flow`; every comparison is numeric (vp.ir_eval.ev) at 8 random positive points.
"""
from __future__ import annotations

import json
import math
import traceback

from vp.farm import Case, fp_of
from vp.gen.graphs import NAMES, OUT, Gen, Shadow, dose_symbols, pick_stratum, render_op, spec_sym, spec_symbols

PROP = "C05"
LEVEL = "exploration"
RULE = (
    "random builder histories: 1-6 compartments named from a tie-break-stressing pool, random digraph (edge "
    "density 0.15-0.8, 0-2 output flows), rates = positive symbol / integer / quotient / 2*K / K1+K2 / VM/(KM+A_src(t)) / K*A_src(t) / "
    "CL/V+VM/(KM+A_src(t)), "
    "0-3 doses (Bolus, Infusion by rate or duration, admids 1-3), zero-order inputs, lag, F, followed by 0-10 "
    "random edits (add/remove compartment, add/overwrite/remove flow, move/set/add/remove dose, set lag/F/input, "
    "snapshot, rebuild builder from system); strata main 76% (final system has a dose and an output flow, no "
    "construct with a listed finding), nodose 9%, nooutput 8%, second_order 7% (main plus exactly one flow whose "
    "rate is KON*A_other(t)/VC). Distinct by the printed op list; non-trivial if the final system has >=2 "
    "compartments, >=2 flows and the history has >=1 edit after construction"
)
ASSUMPTIONS = [
    "add_flow on an existing (source, destination) pair replaces the rate (DiGraph semantics; to_compartmental_system "
    "itself relies on it)",
    "numeric agreement 1e-9 relative to the sum of absolute terms at 8 random points, all symbols and amounts "
    "drawn from [0.3, 3] so no denominator vanishes",
    "to_compartmental_system is only required to reproduce the vector field (rhs including inputs) per compartment, "
    "not the same split into flows / inputs / outputs",
    "dosing_compartments raising ValueError for a system with doses but no output flow ('Cannot find central "
    "compartment') is treated as a documented refusal of that accessor and not judged",
    "compartments named METABOLITE/EFFECT/COMPLEX/RESPONSE, self flows, amounts other than the default A_<name>(t), "
    "stale Compartment handles and substitution of t are not generated (docs silent); renaming an amount function through subs "
    "is judged for self-consistency only (equations closed over the system's own amounts, same right-hand sides)",
    "dose order inside a compartment is not compared (Compartment.doses documents a re-ordering)",
]
MIN_NONTRIVIAL = {"quick": 1000, "thorough": 15000}
REQUIRED_MONITORS = ["lengths", "lhs", "rhs_vs_shadow", "matrix_entries", "matrix_product", "inputs_vs_shadow",
                     "mass_balance", "tcs_vector_field", "roundtrip_eq", "roundtrip_json_eq", "roundtrip_vs_shadow",
                     "subs", "subs_amount", "doses_vs_shadow", "lag_vs_shadow", "F_vs_shadow", "get_flow", "outflows", "inflows",
                     "dosing_compartments", "snapshot_unchanged", "stratum:nodose", "stratum:upstream_or_disconnected",
                     "stratum:nonlinear_rate", "stratum:move_dose", "stratum:second_order", "stratum:nooutput"]

KEY_EQ = "C05/eq-raises-without-dose-or-output"
KEY_TCS_SO = "C05/tcs-second-order-rate"
NPOINTS = 8
TOL = 1e-9


def n_cases(tier):
    return 2000 if tier == "quick" else 40000


def setup(tier):
    import pharmpy.model  # noqa
    import sympy  # noqa
    from sympy import ask, Q  # noqa  (warm the assumptions machinery before fork)


# ------------------------------------------------------------------ numeric helpers
def close(a, b, scale=1.0):
    return abs(a - b) <= TOL * max(1.0, abs(a), abs(b), scale)


def sh_val(spec, env, funcs):
    from vp.ir_eval import ev

    return ev(spec_sym(spec), env, funcs)


def sh_net(sh, name, env, funcs):
    """(net rate of change, sum of absolute terms) of compartment `name` from the shadow edges."""
    terms = []
    for (s, d), r in sh.edges.items():
        if d == name:
            terms.append(sh_val(r, env, funcs) * funcs["A_" + s])
        if s == name:
            terms.append(-sh_val(r, env, funcs) * funcs["A_" + s])
    terms.append(sh_val(sh.comps[name]["input"], env, funcs))
    return math.fsum(terms), math.fsum(abs(t) for t in terms)


def all_symbols(ops):
    s = set()
    for op in ops:
        for k in ("rate", "value", "input", "lag", "F"):
            if k in op:
                s |= spec_symbols(op[k])
        for d in op.get("doses") or []:
            s |= dose_symbols(d)
    return s


def make_points(rng, symbols, n=NPOINTS):
    pts = []
    for _ in range(n):
        env = {s: rng.uniform(0.3, 3.0) for s in sorted(symbols)}
        env["t"] = rng.uniform(0.3, 3.0)
        funcs = {"A_" + nm: rng.uniform(0.3, 3.0) for nm in NAMES}
        pts.append((env, env, funcs))
    return pts


# ------------------------------------------------------------------ driving pharmpy
def to_pharmpy(spec, form):
    from pharmpy.basic import Expr

    if form == "str":
        from vp.gen.graphs import spec_text

        return spec_text(spec)
    if form == "sympy":
        return spec_sym(spec)
    k = spec[0]
    if k == "num":
        return Expr.integer(spec[1])
    if k == "sym":
        return Expr.symbol(spec[1])
    if k == "quot":
        return Expr.symbol(spec[1]) / Expr.symbol(spec[2])
    if k == "scaled":
        return Expr.integer(spec[1]) * Expr.symbol(spec[2])
    if k == "sum":
        return Expr.symbol(spec[1]) + Expr.symbol(spec[2])
    A = lambda nm: Expr.function("A_" + nm, "t")  # noqa: E731
    if k == "mm":
        return Expr.symbol(spec[1]) / (Expr.symbol(spec[2]) + A(spec[3]))
    if k == "sq":
        return Expr.symbol(spec[1]) * A(spec[2])
    if k == "mix":
        return Expr.symbol(spec[1]) / Expr.symbol(spec[2]) + Expr.symbol(spec[3]) / (Expr.symbol(spec[4]) + A(spec[5]))
    if k == "so":
        return Expr.symbol(spec[1]) * A(spec[3]) / Expr.symbol(spec[2])
    raise ValueError(spec)


def mk_dose(d):
    from pharmpy.model import Bolus, Infusion

    if d[0] == "bolus":
        return Bolus.create(d[1], admid=d[2])
    if d[0] == "inf_rate":
        return Infusion.create(d[1], admid=d[2], rate=d[3])
    return Infusion.create(d[1], admid=d[2], duration=d[3])


class Run:
    """State of one replay of a history against the real builder."""

    def __init__(self):
        from pharmpy.model import CompartmentalSystemBuilder

        self.cb = CompartmentalSystemBuilder()
        self.h = {}  # name -> current Compartment object (tracked from the return values)
        self.sh = Shadow()
        self.snaps = []

    def node(self, name):
        from pharmpy.model import output

        return output if name == OUT else self.h[name]

    def apply(self, op):
        from pharmpy.model import Compartment, CompartmentalSystem, CompartmentalSystemBuilder

        cb, h = self.cb, self.h
        k = op["op"]
        if k == "add_compartment":
            comp = Compartment.create(op["name"], doses=tuple(mk_dose(d) for d in op["doses"]),
                                      input=to_pharmpy(op["input"], "expr"), lag_time=to_pharmpy(op["lag"], "str"),
                                      bioavailability=to_pharmpy(op["F"], "sympy"))
            cb.add_compartment(comp)
            h[op["name"]] = comp
        elif k == "remove_compartment":
            cb.remove_compartment(h[op["name"]])
            del h[op["name"]]
        elif k == "add_flow":
            cb.add_flow(h[op["src"]], self.node(op["dst"]), to_pharmpy(op["rate"], op["as"]))
        elif k == "remove_flow":
            cb.remove_flow(h[op["src"]], self.node(op["dst"]))
        elif k == "move_dose":
            if op["admid"] is None:
                ns, nd = cb.move_dose(h[op["src"]], h[op["dst"]])
            else:
                ns, nd = cb.move_dose(h[op["src"]], h[op["dst"]], admid=op["admid"])
            h[op["src"]], h[op["dst"]] = ns, nd
        elif k == "set_dose":
            if op["doses"] is None:
                arg = None
            elif op.get("single"):
                arg = mk_dose(op["doses"][0])
            else:
                arg = tuple(mk_dose(d) for d in op["doses"])
            h[op["name"]] = cb.set_dose(h[op["name"]], arg)
        elif k == "add_dose":
            arg = mk_dose(op["doses"][0]) if op.get("single") else tuple(mk_dose(d) for d in op["doses"])
            h[op["name"]] = cb.add_dose(h[op["name"]], arg)
        elif k == "remove_dose":
            if op["admid"] is None:
                h[op["name"]] = cb.remove_dose(h[op["name"]])
            else:
                h[op["name"]] = cb.remove_dose(h[op["name"]], admid=op["admid"])
        elif k == "set_lag_time":
            h[op["name"]] = cb.set_lag_time(h[op["name"]], to_pharmpy(op["value"], op["as"]))
        elif k == "set_bioavailability":
            h[op["name"]] = cb.set_bioavailability(h[op["name"]], to_pharmpy(op["value"], op["as"]))
        elif k == "set_input":
            h[op["name"]] = cb.set_input(h[op["name"]], to_pharmpy(op["value"], op["as"]))
        elif k == "snapshot":
            self.snaps.append((CompartmentalSystem(cb), self.sh.copy(), len(self.snaps)))
        elif k == "rebuild":
            self.cb = CompartmentalSystemBuilder(CompartmentalSystem(cb))
        else:
            raise RuntimeError(k)


def execute(ops, c=None, text=None):
    """Replay `ops`; returns (Run, final CompartmentalSystem) or None after recording a violation in c."""
    from pharmpy.model import CompartmentalSystem

    run = Run()
    for i, op in enumerate(ops):
        try:
            run.apply(op)
        except ValueError as e:
            if op.get("expect_refusal") and "No doses to move" in str(e):
                if c is not None:
                    c.hit("op_refused_as_documented")
                continue
            if c is not None:
                c.violate(None, f"builder op {i} ({render_op(op)}) is legal but raised ValueError: {e}",
                          {"ops": text, "traceback": traceback.format_exc()[-1200:]})
            return None
        except Exception as e:
            if c is not None:
                c.violate(None, f"builder op {i} ({render_op(op)}) raised internal {type(e).__name__}: {e}",
                          {"ops": text, "traceback": traceback.format_exc()[-1200:]})
            return None
        if op.get("expect_refusal"):
            if c is not None:
                c.hit("not_judged:move_dose-from-undosed-not-refused")
            continue
        run.sh.apply(op)
        if c is not None:
            # the compartments returned by the builder are the ones now in the system
            c.hit("handle_tracking")
            for nm, comp in run.h.items():
                found = run.cb.find_compartment(nm)
                if found is None or found != comp:
                    c.violate(None, f"after op {i} ({render_op(op)}) the builder holds {found!r} under the name {nm}, "
                                    f"the compartment created/returned for it is {comp!r}", {"ops": text})
                    return None
    try:
        cs = CompartmentalSystem(run.cb)
    except Exception as e:
        if c is not None:
            c.violate(None, f"CompartmentalSystem(builder) raised {type(e).__name__}: {e}", {"ops": text})
        return None
    return run, cs


# ------------------------------------------------------------------ monitors
def check_structure(c, cs, sh, pts, label, text):
    """Vector lengths, one order, lhs, rhs vs shadow, matrix entries, M@A+u, inputs, mass balance."""
    import sympy
    from vp.ir_eval import EvalError, Unbound, ev, to_sympy

    try:
        amounts = list(cs.amounts)
        names = list(cs.compartment_names)
        eqs = list(cs.eqs)
        u = cs.zero_order_inputs
        M = cs.compartmental_matrix
        n_len = len(cs)
    except Exception as e:
        c.violate(None, f"[{label}] equations/matrix/amounts raised {type(e).__name__}: {e}",
                  {"ops": text, "traceback": traceback.format_exc()[-1500:]})
        return False
    n = len(sh.comps)
    c.hit("lengths")
    lens = {"amounts": len(amounts), "compartment_names": len(names), "eqs": len(eqs), "zero_order_inputs": len(u),
            "matrix_rows": M.rows, "matrix_cols": M.cols, "len": n_len}
    if any(v != n for v in lens.values()):
        c.violate(None, f"[{label}] vector lengths differ from the {n} compartments of the system: {lens}", {"ops": text})
        return False
    if n and (u.rows != n or u.cols != 1):
        c.violate(None, f"[{label}] zero_order_inputs is not a column vector of length {n}", {"ops": text})
        return False
    if sorted(names) != sorted(sh.comps):
        c.violate(None, f"[{label}] compartment_names {names} is not a permutation of the compartments {sorted(sh.comps)}",
                  {"ops": text})
        return False
    t = sympy.Symbol("t")
    for i in range(n):
        a = to_sympy(amounts[i])
        c.hit("amount_vs_name")
        if a != sympy.Function("A_" + names[i])(t):
            c.violate(None, f"[{label}] amounts[{i}] = {a} but compartment_names[{i}] = {names[i]}", {"ops": text})
            return False
        lhs = to_sympy(eqs[i].lhs)
        c.hit("lhs")
        if not (isinstance(lhs, sympy.Derivative) and lhs.expr == a and tuple(lhs.variables) == (t,)):
            c.violate(None, f"[{label}] eqs[{i}].lhs = {lhs} is not d/dt of amounts[{i}] = {a}", {"ops": text})
            return False
    ok = True
    for env_cs, env_sh, funcs in pts:
        try:
            rhs = [ev(eqs[i].rhs, env_cs, funcs) for i in range(n)]
            Mn = [[ev(M[i, j], env_cs, funcs) for j in range(n)] for i in range(n)]
            un = [ev(u[i], env_cs, funcs) for i in range(n)]
        except Unbound as e:
            c.violate(None, f"[{label}] equations mention {e}, which no builder call introduced", {"ops": text})
            return False
        except EvalError:
            c.hit("point_rejected")
            continue
        exp = [sh_net(sh, names[i], env_sh, funcs) for i in range(n)]
        for i in range(n):
            c.hit("rhs_vs_shadow")
            if not close(rhs[i], exp[i][0], exp[i][1]):
                c.violate(None, f"[{label}] eqs[{i}].rhs = {eqs[i].rhs} evaluates to {rhs[i]!r}; inflows - outflows + "
                                f"input of compartment {names[i]} is {exp[i][0]!r}",
                          {"ops": text, "system": sh.describe(), "names": names, "env": env_cs, "amounts": funcs})
                ok = False
        for i in range(n):
            for j in range(n):
                c.hit("matrix_entries")
                if i != j:
                    r = sh.edges.get((names[j], names[i]))
                    e = 0.0 if r is None else sh_val(r, env_sh, funcs)
                else:
                    e = -math.fsum(sh_val(r, env_sh, funcs) for (s, d), r in sh.edges.items() if s == names[i])
                if not close(Mn[i][j], e):
                    c.violate(None, f"[{label}] compartmental_matrix[{i},{j}] = {M[i, j]} evaluates to {Mn[i][j]!r}; shadow "
                                    f"{'rate ' + names[j] + '->' + names[i] if i != j else '-(outflows of ' + names[i] + ')'} = {e!r}",
                              {"ops": text, "system": sh.describe(), "names": names})
                    ok = False
            c.hit("inputs_vs_shadow")
            e = sh_val(sh.comps[names[i]]["input"], env_sh, funcs)
            if not close(un[i], e):
                c.violate(None, f"[{label}] zero_order_inputs[{i}] = {u[i]} evaluates to {un[i]!r}; input of {names[i]} is {e!r}",
                          {"ops": text, "names": names})
                ok = False
            c.hit("matrix_product")
            terms = [Mn[i][j] * funcs["A_" + names[j]] for j in range(n)] + [un[i]]
            prod = math.fsum(terms)
            if not close(prod, rhs[i], math.fsum(abs(x) for x in terms)):
                c.violate(None, f"[{label}] (compartmental_matrix @ amounts + zero_order_inputs)[{i}] = {prod!r} != eqs[{i}].rhs = {rhs[i]!r}",
                          {"ops": text, "names": names})
                ok = False
        c.hit("mass_balance")
        outs = [-sh_val(r, env_sh, funcs) * funcs["A_" + s] for (s, d), r in sh.edges.items() if d == OUT]
        ins = [sh_val(cc["input"], env_sh, funcs) for cc in sh.comps.values()]
        tot = math.fsum(rhs)
        e = math.fsum(outs + ins)
        if not close(tot, e, math.fsum(x[1] for x in exp)):
            c.violate(None, f"[{label}] mass balance: sum of rhs = {tot!r}, -(output flows) + inputs = {e!r}",
                      {"ops": text, "system": sh.describe()})
            ok = False
        if not ok:
            return False
    return True


def _dose_key(kind, admid, vals):
    return (kind, admid, tuple(round(v, 6) for v in vals))


def _same_doses(got, exp):
    """Multiset comparison: kind and admid exactly, values numerically."""
    got, exp = sorted(got), sorted(exp)
    if len(got) != len(exp):
        return False
    for g, e in zip(got, exp):
        if g[:2] != e[:2] or len(g) != 3 or len(g[2]) != len(e[2]):
            return False
        if not all(close(a, b) for a, b in zip(g[2], e[2])):
            return False
    return True


def check_attrs(c, cs, sh, pts, label, text):
    """Doses, lag time and bioavailability of every compartment against the shadow."""
    from pharmpy.model import Bolus, Infusion
    from vp.ir_eval import EvalError, Unbound, ev

    ok = True
    for nm, sc in sorted(sh.comps.items()):
        try:
            comp = cs.find_compartment(nm)
        except Exception as e:
            c.violate(None, f"[{label}] find_compartment({nm}) raised {type(e).__name__}: {e}", {"ops": text})
            return False
        if comp is None:
            c.violate(None, f"[{label}] find_compartment({nm}) is None for an existing compartment", {"ops": text})
            return False
        for env_cs, env_sh, funcs in pts[:3]:
            try:
                got = []
                for d in comp.doses:
                    if isinstance(d, Bolus):
                        got.append(_dose_key("bolus", d.admid, [ev(d.amount, env_cs, funcs)]))
                    elif isinstance(d, Infusion) and d.rate is not None and d.duration is None:
                        got.append(_dose_key("inf_rate", d.admid, [ev(d.amount, env_cs, funcs), ev(d.rate, env_cs, funcs)]))
                    elif isinstance(d, Infusion) and d.duration is not None and d.rate is None:
                        got.append(_dose_key("inf_dur", d.admid, [ev(d.amount, env_cs, funcs), ev(d.duration, env_cs, funcs)]))
                    else:
                        got.append(("?", repr(d)))
                lag = ev(comp.lag_time, env_cs, funcs)
                bio = ev(comp.bioavailability, env_cs, funcs)
            except (Unbound, EvalError) as e:
                c.violate(None, f"[{label}] dose/lag/F of {nm} cannot be evaluated: {type(e).__name__} {e}", {"ops": text})
                return False
            exp = [_dose_key(d[0], d[2], [env_sh[x] for x in (d[1:2] + d[3:4])]) for d in sc["doses"]]
            c.hit("doses_vs_shadow")
            if not _same_doses(got, exp):
                c.violate(None, f"[{label}] doses of {nm} are {comp.doses!r}; the history gives {sc['doses']}",
                          {"ops": text, "got": sorted(got), "expected": sorted(exp)})
                ok = False
            c.hit("lag_vs_shadow")
            e = sh_val(sc["lag"], env_sh, funcs)
            if not close(lag, e):
                c.violate(None, f"[{label}] lag time of {nm} = {comp.lag_time} evaluates to {lag!r}, expected {e!r}", {"ops": text})
                ok = False
            c.hit("F_vs_shadow")
            e = sh_val(sc["F"], env_sh, funcs)
            if not close(bio, e):
                c.violate(None, f"[{label}] bioavailability of {nm} = {comp.bioavailability} evaluates to {bio!r}, expected {e!r}", {"ops": text})
                ok = False
            if not ok:
                return False
    return ok


def check_accessors(c, cs, sh, pts, handles, label, text):
    from pharmpy.model import output
    from vp.ir_eval import ev

    env_cs, env_sh, funcs = pts[0]
    nodes = {}
    for nm in sh.comps:
        nodes[nm] = handles[nm] if handles is not None else cs.find_compartment(nm)
        if handles is not None:
            c.hit("find_compartment")
            f = cs.find_compartment(nm)
            if f is None or f != handles[nm]:
                c.violate(None, f"[{label}] find_compartment({nm}) = {f!r}, the builder returned {handles[nm]!r}", {"ops": text})
                return
    nodes[OUT] = output

    def name_of(node):
        if node is output:
            return OUT
        return getattr(node, "name", repr(node))

    try:
        for s in sh.comps:
            for d in list(sh.comps) + [OUT]:
                if s == d:
                    continue
                c.hit("get_flow")
                got = cs.get_flow(nodes[s], nodes[d])
                r = sh.edges.get((s, d))
                if r is None:
                    if got != 0:
                        c.violate(None, f"[{label}] get_flow({s}, {d}) = {got}, there is no such flow", {"ops": text})
                        return
                else:
                    g, e = ev(got, env_cs, funcs), sh_val(r, env_sh, funcs)
                    if not close(g, e):
                        c.violate(None, f"[{label}] get_flow({s}, {d}) = {got} evaluates to {g!r}, the flow added last is worth {e!r}",
                                  {"ops": text})
                        return
        for nm in list(sh.comps) + [OUT]:
            for arg in ((nm, nodes[nm]) if nm != OUT else (output,)):
                if nm != OUT:
                    c.hit("outflows")
                    lst = cs.get_compartment_outflows(arg)
                    got = {}
                    for node, rate in lst:
                        got.setdefault(name_of(node), []).append(ev(rate, env_cs, funcs))
                    exp = {d: sh_val(r, env_sh, funcs) for (s, d), r in sh.edges.items() if s == nm}
                    if set(got) != set(exp) or any(len(v) != 1 or not close(v[0], exp[k]) for k, v in got.items()):
                        c.violate(None, f"[{label}] get_compartment_outflows({arg!r}) = {lst!r}; shadow outflows of {nm}: {exp}",
                                  {"ops": text})
                        return
                c.hit("inflows")
                lst = cs.get_compartment_inflows(arg)
                got = {}
                for node, rate in lst:
                    got.setdefault(name_of(node), []).append(ev(rate, env_cs, funcs))
                exp = {s: sh_val(r, env_sh, funcs) for (s, d), r in sh.edges.items() if d == nm}
                if set(got) != set(exp) or any(len(v) != 1 or not close(v[0], exp[k]) for k, v in got.items()):
                    c.violate(None, f"[{label}] get_compartment_inflows({arg!r}) = {lst!r}; shadow inflows of {nm}: {exp}", {"ops": text})
                    return
    except Exception as e:
        c.violate(None, f"[{label}] flow accessor raised {type(e).__name__}: {e}",
                  {"ops": text, "traceback": traceback.format_exc()[-1200:]})
        return
    dosed = sorted(nm for nm, sc in sh.comps.items() if sc["doses"])
    try:
        dc = cs.dosing_compartments
    except ValueError as e:
        if not dosed and "No dosing compartment" in str(e):
            c.hit("dosing_compartments")  # documented refusal for a system without doses
        elif dosed and not sh.outputs() and "central" in str(e):
            c.hit("not_judged:dosing_compartments-without-central")
        else:
            c.violate(None, f"[{label}] dosing_compartments raised ValueError({e}) although {dosed} have doses and "
                            f"{sh.outputs()} have output flows", {"ops": text})
        return
    except Exception as e:
        c.violate(None, f"[{label}] dosing_compartments raised {type(e).__name__}: {e}", {"ops": text})
        return
    c.hit("dosing_compartments")
    got = [x.name for x in dc]
    if sorted(got) != dosed:
        c.violate(None, f"[{label}] dosing_compartments = {got}; compartments with doses: {dosed}", {"ops": text})


def tcs_field(cs, sh, pts):
    """None if to_compartmental_system(names, cs.eqs) has the vector field of the shadow, else (msg, detail)."""
    from pharmpy.model import to_compartmental_system
    from vp.ir_eval import EvalError, Unbound, ev

    amounts = list(cs.amounts)
    names = list(cs.compartment_names)
    fmap = {a: nm for a, nm in zip(amounts, names)}
    eqs = [e._sympy_() for e in cs.eqs]
    try:
        cs3 = to_compartmental_system(fmap, eqs)
        names3 = list(cs3.compartment_names)
        eqs3 = list(cs3.eqs)
    except Exception as e:
        return (f"to_compartmental_system(names, cs.eqs) raised {type(e).__name__}: {e}",
                {"eqs": [str(e_) for e_ in eqs], "traceback": traceback.format_exc()[-1500:]}, 0)
    if sorted(names3) != sorted(names):
        return (f"to_compartmental_system has compartments {names3}, the equations were for {names}", {}, 0)
    nhit = 0
    for env_cs, env_sh, funcs in pts:
        for i, nm in enumerate(names3):
            try:
                got = ev(eqs3[i].rhs, env_cs, funcs)
            except (EvalError, Unbound) as e:
                return (f"to_compartmental_system equation {eqs3[i]} cannot be evaluated: {e}", {}, nhit)
            e, scale = sh_net(sh, nm, env_sh, funcs)
            nhit += 1
            if not close(got, e, scale):
                return (f"to_compartmental_system(names, eqs): d/dt A_{nm} = {eqs3[i].rhs} evaluates to {got!r}, "
                        f"the original system has {e!r}",
                        {"eqs": [str(x) for x in eqs], "eqs_back": [str(x) for x in eqs3]}, nhit)
    return (None, None, nhit)


def check_tcs(c, cs, sh, pts, ops, label, text):
    """to_compartmental_system(names, eqs) must have the same vector field (rhs including inputs)."""
    if not sh.comps:
        return
    msg, detail, nhit = tcs_field(cs, sh, pts)
    c.hit("tcs_vector_field", max(nhit, 1))
    if msg is None:
        return
    key = None
    so = [i for i, op in enumerate(ops) if op["op"] == "add_flow" and op["rate"][0] == "so"
          and sh.edges.get((op["src"], op["dst"])) == op["rate"]]
    if so:
        # delta check: the same history with the second-order rate replaced by a plain positive symbol
        ops2 = [dict(op) for op in ops]
        for i in so:
            ops2[i]["rate"] = ["sym", "KDELTA%d" % i]
            ops2[i]["as"] = "str"
        res = execute(ops2)
        if res is not None:
            env_pts = [(dict(e1, **{"KDELTA%d" % i: 1.3 for i in so}), dict(e2, **{"KDELTA%d" % i: 1.3 for i in so}), f)
                       for e1, e2, f in pts]
            try:
                if tcs_field(res[1], res[0].sh, env_pts)[0] is None:
                    key = KEY_TCS_SO
            except Exception:
                pass
    detail = dict(detail or {})
    detail.update({"ops": text, "system": sh.describe()})
    c.violate(key, f"[{label}] {msg}", detail)


def _eq_delta_ok(ops):
    """Delta check for KEY_EQ: the same history plus a dose and an output flow compares without raising."""
    from pharmpy.model import CompartmentalSystem

    sh = Shadow()
    for op in ops:
        if not op.get("expect_refusal"):
            sh.apply(op)
    nm = sorted(sh.comps)[0]
    ops2 = list(ops)
    if not sh.has_dose():
        ops2.append({"op": "add_dose", "name": nm, "doses": [["bolus", "AMT", 1]], "single": True})
    if not sh.outputs():
        ops2.append({"op": "add_flow", "src": nm, "dst": OUT, "rate": ["sym", "KDELTA"], "as": "str"})
    res = execute(ops2)
    if res is None:
        return False
    try:
        return (CompartmentalSystem.from_dict(res[1].to_dict()) == res[1]) is True
    except Exception:
        return False


def check_roundtrip(c, cs, sh, pts, ops, label, text):
    from pharmpy.model import CompartmentalSystem

    try:
        d = cs.to_dict()
        cs2 = CompartmentalSystem.from_dict(d)
    except Exception as e:
        c.violate(None, f"[{label}] from_dict(to_dict(cs)) raised {type(e).__name__}: {e}",
                  {"ops": text, "traceback": traceback.format_exc()[-1200:]})
        return
    try:
        dj = json.loads(json.dumps(d))
        cs2j = CompartmentalSystem.from_dict(dj)
    except Exception as e:
        c.violate(None, f"[{label}] from_dict(json.loads(json.dumps(to_dict(cs)))) raised {type(e).__name__}: {e}",
                  {"ops": text, "traceback": traceback.format_exc()[-1200:]})
        return
    for other, mon, what in ((cs2, "roundtrip_eq", "from_dict(to_dict(cs))"),
                             (cs2j, "roundtrip_json_eq", "from_dict(json round trip of to_dict(cs))")):
        c.hit(mon)
        try:
            same = (other == cs)
            differs = (other != cs)
        except Exception as e:
            msg = str(e)
            key = None
            expected_construct = (isinstance(e, ValueError) and (
                (msg == "No dosing compartment exists" and not sh.has_dose())
                or (msg == "Cannot find central compartment" and sh.has_dose() and not sh.outputs())))
            if expected_construct and _eq_delta_ok(ops):
                key = KEY_EQ
            c.violate(key, f"[{label}] {what} == cs raised {type(e).__name__}: {e}",
                      {"ops": text, "system": sh.describe(), "traceback": traceback.format_exc()[-800:]})
            continue
        if same is not True or differs is not False:
            c.violate(None, f"[{label}] {what} == cs is {same!r} (!= is {differs!r})", {"ops": text, "dict": d})
    # independent of __eq__: the round-tripped systems still describe the shadow
    for other, what in ((cs2, "rt"), (cs2j, "rt-json")):
        c.hit("roundtrip_vs_shadow")
        if check_structure(c, other, sh, pts[:3], f"{label}/{what}", text):
            check_attrs(c, other, sh, pts[:3], f"{label}/{what}", text)
            check_accessors(c, other, sh, pts, None, f"{label}/{what}", text)


def check_subs(c, rng, cs, sh, symbols, label, text):
    from pharmpy.basic import Expr
    from vp.ir_eval import ev
    import sympy

    used = sorted(sh.symbols())
    if not used:
        c.hit("subs_nothing_to_substitute")
        return
    olds = rng.sample(used, min(len(used), rng.choice([1, 1, 2])))
    others = [s for s in used if s not in olds]
    mapping, rendering, repl = {}, {}, {}
    for old in olds:
        r = rng.random()
        if r < 0.4:
            new = ["sym", rng.choice(["ZZ1", "ZZ2"])]
        elif r < 0.55 and others:
            new = ["sym", rng.choice(others)]  # merge two symbols
        elif r < 0.7:
            new = ["scaled", 2, "ZZ1"]
        elif r < 0.85:
            new = ["sum", "ZZ1", "ZZ2"]
        else:
            new = ["quot", "ZZ1", "ZZ2"]
        kform = rng.choice(["str", "expr"])
        vform = rng.choice(["str", "expr", "sympy"])
        key = old if kform == "str" else Expr.symbol(old)
        mapping[key] = to_pharmpy(new, vform)
        repl[old] = new
        from vp.gen.graphs import spec_text
        rendering[old] = f"{spec_text(new)} [{kform}->{vform}]"
    try:
        before = json.dumps(cs.to_dict(), sort_keys=True)
        cs_s = cs.subs(mapping)
        after = json.dumps(cs.to_dict(), sort_keys=True)
    except Exception as e:
        c.violate(None, f"[{label}] subs({rendering}) raised {type(e).__name__}: {e}",
                  {"ops": text, "traceback": traceback.format_exc()[-1200:]})
        return
    c.hit("subs")
    if before != after:
        c.violate(None, f"[{label}] subs({rendering}) modified the system it was called on", {"ops": text})
        return
    pts = []
    for env, _, funcs in make_points(rng, set(symbols) | {"ZZ1", "ZZ2"}, 4):
        env_sh = dict(env)
        for old, new in repl.items():
            env_sh[old] = ev(spec_sym(new), env, funcs)
        # the substituted symbols must be gone: poison them on pharmpy's side unless re-introduced by a merge
        env_cs = dict(env)
        reintroduced = set()
        for new in repl.values():
            reintroduced |= spec_symbols(new)
        for old in repl:
            if old not in reintroduced:
                env_cs[old] = 1e6
        pts.append((env_cs, env_sh, funcs))
    lab = f"{label}/subs({rendering})"
    if check_structure(c, cs_s, sh, pts, lab, text):
        check_attrs(c, cs_s, sh, pts, lab, text)
        check_accessors(c, cs_s, sh, pts, None, lab, text)


def check_subs_amount(c, rng, cs, symbols, label, text):
    """Renaming the amount function of one compartment (a substitution keyed by a function, not by a symbol).  The docs
    are silent on what such a substitution should give, so only self-consistency is demanded: the result must still be
    ONE system - every amount function that occurs in its equations is one of its amounts, the derivative on the left of
    equation i is that of amounts[i] - and its right-hand sides must equal those of the original with the renamed function
    standing for the old one."""
    import sympy
    from pharmpy.basic import Expr
    from sympy.core.function import AppliedUndef

    from vp.ir_eval import ev, to_sympy

    names = list(cs.compartment_names)
    if not names:
        return
    old_eqs = list(cs.eqs)
    used = set()
    for e in old_eqs:
        used |= {str(f.func) for f in to_sympy(e.rhs).atoms(AppliedUndef)}
    cands = [n for n in names if str(cs.find_compartment(n).amount.name if hasattr(cs.find_compartment(n).amount, "name") else "") in used]
    if not cands:
        c.hit("subs_amount_not_applicable")
        return
    nm = rng.choice(cands)
    oldf = cs.find_compartment(nm).amount
    newname = "A_ZZRENAMED"
    key = Expr.function(oldf.name, "t")
    val = Expr.function(newname, "t")
    if rng.random() < 0.5:
        key, val = to_sympy(key), to_sympy(val)
    try:
        cs_s = cs.subs({key: val})
        new_eqs = list(cs_s.eqs)
        amounts = [to_sympy(a) for a in cs_s.amounts]
    except Exception as e:
        c.violate(None, f"[{label}] subs(amount {oldf.name}(t) -> {newname}(t)) raised {type(e).__name__}: {e}", {"ops": text})
        return
    c.hit("subs_amount")
    own = {str(a) for a in amounts}
    for i, e in enumerate(new_eqs):
        stray = sorted(str(f) for f in to_sympy(e.rhs).atoms(AppliedUndef) if str(f) not in own)
        if stray:
            c.violate(None, f"[{label}] after renaming the amount {oldf.name}(t) to {newname}(t) equation {i} refers to {stray}, "
                            f"which is none of the system's amounts {sorted(own)}", {"ops": text})
            return
    if len(new_eqs) != len(old_eqs):
        c.violate(None, f"[{label}] renaming an amount changed the number of equations {len(old_eqs)} -> {len(new_eqs)}", {"ops": text})
        return
    by_lhs_old = {str(to_sympy(e.lhs)): e for e in old_eqs}
    for env, _, funcs in make_points(rng, set(symbols), 3):
        f2 = dict(funcs)
        f2[newname] = funcs.get(str(oldf.name), 1.0)
        for e in new_eqs:
            lhs = str(to_sympy(e.lhs)).replace(newname, str(oldf.name))
            eo = by_lhs_old.get(lhs)
            if eo is None:
                c.violate(None, f"[{label}] after renaming an amount the equation for {lhs} has no counterpart", {"ops": text})
                return
            a = ev(eo.rhs, env, funcs)
            b = ev(e.rhs, env, f2)
            if abs(a - b) > 1e-9 * (abs(a) + abs(b) + 1e-12):
                c.violate(None, f"[{label}] renaming the amount {oldf.name}(t) changed the right-hand side of {lhs}: {a} vs {b}", {"ops": text})
                return


# ------------------------------------------------------------------ the case
def run_case(rng, idx, tier):
    c = Case()
    stratum = pick_stratum(rng)
    g = Gen(rng, stratum)
    n_construct = g.history()
    ops = g.ops
    text = [render_op(op) for op in ops]
    sh = g.sh
    c.sample = {"stratum": stratum, "ops": text, "final_system": sh.describe()}
    c.fp = fp_of(text)
    n_edits = sum(1 for op in ops[n_construct:] if op["op"] not in ("snapshot", "rebuild"))
    c.nontrivial = len(sh.comps) >= 2 and len(sh.edges) >= 2 and n_edits >= 1
    c.states.append(fp_of(sorted(sh.edges), sorted(nm for nm, sc in sh.comps.items() if sc["doses"]), sorted(sh.comps)))

    res = execute(ops, c, text)
    if res is None:
        return c
    run, cs = res
    assert run.sh.describe() == sh.describe()  # harness self-check: generator shadow == replay shadow
    c.hit("stratum:" + stratum)
    for tag in g.tags:
        c.hit("stratum:" + tag)
    symbols = all_symbols(ops)
    pts = make_points(rng, symbols)

    if check_structure(c, cs, sh, pts, "final", text):
        try:
            root = cs.compartment_names[0] if sh.comps else None
        except Exception:
            root = None
        if root is not None and len(sh.reachable_from(root)) < len(sh.comps):
            c.hit("stratum:upstream_or_disconnected")
        check_attrs(c, cs, sh, pts, "final", text)
        check_accessors(c, cs, sh, pts, run.h, "final", text)
        check_tcs(c, cs, sh, pts[:4], ops, "final", text)
        check_roundtrip(c, cs, sh, pts, ops, "final", text)
        check_subs(c, rng, cs, sh, symbols, "final", text)
        if rng.random() < 0.5:
            check_subs_amount(c, rng, cs, symbols, "final", text)
    # systems built in the middle of the history are unaffected by the later builder calls
    for cs_mid, sh_mid, k in run.snaps:
        c.hit("snapshot_unchanged")
        if check_structure(c, cs_mid, sh_mid, pts[:3], f"snapshot{k}", text):
            check_attrs(c, cs_mid, sh_mid, pts[:3], f"snapshot{k}", text)
    return c
