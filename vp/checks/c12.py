"""C12 Serialisation round-trips and model hashes identify models across processes.

Monitors (all on the real to_dict / from_dict / ModelHash code):
  RT   every component x reachable from a model: to_dict(x) is JSON-serialisable, survives json.loads(json.dumps(.))
       modulo tuple==list, and from_dict of the JSON-decoded dictionary is == x (pharmpy's own equality, as stated)
  GC   the generic model code parses back to an equal model and to the same key
  INV  variants with the same content (name, description, data path, other format, dict round trip, dataset copy,
       compartment graph rebuilt in another insertion order, statements rebuilt, symbol rename round trip) have the
       same key whenever pharmpy itself calls them equal
  SENS single-point content mutations (init, bound, fix, variance, statement, estimation option, data cell, dtype,
       column name, row order, column type, DV mapping) change the key
  XP   the same models built in fresh interpreters under PYTHONHASHSEED 1 / 4242 / random give the same key,
       dataset key and dictionary digest as in this process
"""
from __future__ import annotations

import hashlib
import json
import os
import random
import subprocess
import sys
from pathlib import Path

from vp.farm import Case, fp_of

PROP = "C12"
LEVEL = "exploration"
RULE = (
    "models = start models after random transformation histories (<= 5 steps) and generated control streams; a case is "
    "distinct by (kind, model spec) and non-trivial when at least 10 component round trips or 4 cross-process key "
    "comparisons were evaluated"
)
ASSUMPTIONS = [
    "equality is pharmpy's own __eq__ (the property is stated in those terms); JSON-compatible is read modulo tuple==list",
    "two models have the same content when pharmpy calls them equal AND their datasets are cell-equal; single-point "
    "mutations made by the harness are content changes by construction",
    "cross-process construction replays the same seeded history; if the generated NONMEM code differs between processes "
    "the construction itself is non-deterministic and the key comparison is not judged for that model (counted)",
]
MIN_NONTRIVIAL = {"quick": 150, "thorough": 1500}
REQUIRED_MONITORS = ["RT", "GC", "INV", "SENS", "XP"]
BATCH_TIMEOUT = {"quick": 1800, "thorough": 4 * 3600}

CASE_TIMEOUT_S = 600  # a cross-process case starts three fresh interpreters
HASHSEEDS = ["1", "4242", "random"]  # + the parent interpreter itself


def n_cases(tier):
    return 400 if tier == "quick" else 5000


def setup(tier):
    import pharmpy.modeling  # noqa
    import pharmpy.model.external.nonmem  # noqa
    from vp import histories

    histories.start_models()


# ------------------------------------------------------------------------------------------------ model construction
def build_model(spec):
    """Deterministic in the spec (used here and in the child interpreters)."""
    from vp import histories

    if spec["kind"] == "hist":
        A = histories.alphabet()
        model = histories.start_models()[spec["start"]]
        model = model.replace(dataset=model.dataset.copy())
        rng = random.Random(spec["seed"])
        for name in spec["hist"]:
            try:
                new = A[name][1](model, rng)
            except Exception:
                continue
            if new is not None:
                model = new
        return model
    if spec["kind"] == "file":
        from pharmpy.modeling import read_model

        try:
            m = read_model(spec["path"])
            _ = m.statements
            return m
        except Exception:
            return None
    raise ValueError(spec)


def gen_spec(rng, tier, workdir, idx):
    from vp import histories

    if rng.random() < 0.7:
        start = rng.choice(sorted(histories.start_models()))
        hist = histories.random_history(rng, rng.randint(0, 4 if tier == "quick" else 7))
        return {"kind": "hist", "start": start, "hist": hist, "seed": rng.getrandbits(32)}
    from vp.gen import nmtran as G

    m = G.gen_model(rng, ("trans56",))
    d = Path(workdir) / f"g{idx}_{rng.getrandbits(24)}"
    d.mkdir(parents=True, exist_ok=True)
    (d / "data.csv").write_text(m["data"])
    (d / "model.mod").write_text(m["text"].replace("DATAFILE", "data.csv"))
    return {"kind": "file", "path": str(d / "model.mod"), "text": m["text"].splitlines()}


# ------------------------------------------------------------------------------------------------ helpers
def norm(x):
    if isinstance(x, (list, tuple)):
        return [norm(i) for i in x]
    if isinstance(x, dict):
        return {k: norm(v) for k, v in x.items()}
    return x


def key_of(model):
    from pharmpy.workflows.hashing import ModelHash

    return str(ModelHash(model))


def components(model):
    """(label, object) for the model and everything it is made of."""
    from pharmpy.model import CompartmentalSystem

    out = []
    out.append(("Parameters", model.parameters))
    for p in model.parameters:
        out.append((f"Parameter:{p.name}", p))
    out.append(("RandomVariables", model.random_variables))
    for d in model.random_variables:
        out.append((f"{type(d).__name__}:{','.join(d.names)}", d))
    try:
        vh = model.random_variables._eta_levels
        out.append(("VariabilityHierarchy:eta", vh))
        out.append(("VariabilityHierarchy:eps", model.random_variables._epsilon_levels))
        for lev in vh._levels:
            out.append((f"VariabilityLevel:{lev.name}", lev))
    except AttributeError:
        pass
    out.append(("Statements", model.statements))
    for s in model.statements:
        if isinstance(s, CompartmentalSystem):
            out.append(("CompartmentalSystem", s))
            for name in s.compartment_names:
                comp = s.find_compartment(name)
                out.append((f"Compartment:{name}", comp))
                for dose in comp.doses:
                    out.append((f"{type(dose).__name__}:{name}", dose))
        else:
            out.append((f"{type(s).__name__}:{getattr(s, 'symbol', '')}", s))
    out.append(("ExecutionSteps", model.execution_steps))
    for i, st in enumerate(model.execution_steps):
        out.append((f"{type(st).__name__}:{i}", st))
    out.append(("DataInfo", model.datainfo))
    for col in model.datainfo:
        out.append((f"ColumnInfo:{col.name}", col))
    return out


def exprs_of(model):
    from pharmpy.model import CompartmentalSystem

    for s in model.statements:
        if isinstance(s, CompartmentalSystem):
            for eq in s.eqs:
                yield eq.rhs
        else:
            yield s.expression
    for v in model.observation_transformation.values():
        yield v


# ------------------------------------------------------------------------------------------------ RT monitor
def _diff_dicts(a, b, path=""):
    """First difference between two JSON-like structures (for messages and classification)."""
    if type(a) is not type(b):
        if isinstance(a, (list, tuple)) and isinstance(b, (list, tuple)):
            if len(a) != len(b):
                return f"{path}: length {len(a)} vs {len(b)}"
            for i, (x, y) in enumerate(zip(a, b)):
                d = _diff_dicts(x, y, f"{path}[{i}]")
                if d:
                    return d
            return f"{path}: {type(a).__name__} vs {type(b).__name__}"
        return f"{path}: {type(a).__name__} {a!r:.60} vs {type(b).__name__} {b!r:.60}"
    if isinstance(a, dict):
        if set(a) != set(b):
            return f"{path}: keys {sorted(map(str, set(a) ^ set(b)))}"
        for k in a:
            d = _diff_dicts(a[k], b[k], f"{path}.{k}")
            if d:
                return d
        return None
    if isinstance(a, (list, tuple)):
        if len(a) != len(b):
            return f"{path}: length {len(a)} vs {len(b)}"
        for i, (x, y) in enumerate(zip(a, b)):
            d = _diff_dicts(x, y, f"{path}[{i}]")
            if d:
                return d
        return None
    if a != b and not (a != a and b != b):
        return f"{path}: {a!r:.60} vs {b!r:.60}"
    return None


def classify_rt(label, obj, back, d):
    """Mechanism key of a round-trip inequality (None = unclassified) by delta check on the decoded dictionary."""
    kind = label.split(":")[0]
    try:
        d_back = back.to_dict()
    except Exception:
        return None
    diff = _diff_dicts(d, d_back)
    if diff is None:
        # dictionaries identical (also in tuple/list type) but objects unequal
        return None
    nd = _diff_dicts(norm(d), norm(d_back))
    if nd is None:
        # the only difference between the two objects is a list where the original has a tuple
        if "categories" in diff:
            return "C12/json-list-vs-tuple-categories"
        if kind in ("EstimationStep", "SimulationStep", "ExecutionSteps", "Model") and any(
            w in diff for w in ("solver", "eta_derivatives", "epsilon_derivatives", "predictions", "residuals", "tool_options",
                                 "derivatives", "individual_eta_samples", "parameter_uncertainty_method")):
            return "C12/json-list-vs-tuple-step-options"
        return None
    return None


def rt_component(c, label, obj):
    c.hit("RT")
    cls = type(obj)
    try:
        d = obj.to_dict()
    except Exception as e:
        c.violate(None, f"RT {label}: to_dict raised {type(e).__name__}: {str(e)[:120]}")
        return
    try:
        js = json.dumps(d)
    except (TypeError, ValueError) as e:
        c.violate(_key_json(label, d, e), f"RT {label}: to_dict() is not JSON-serialisable: {type(e).__name__}: {str(e)[:120]}")
        return
    d2 = json.loads(js)
    if norm(d2) != norm(d):
        c.violate(None, f"RT {label}: json.loads(json.dumps(to_dict())) differs from to_dict() beyond tuple/list: {_diff_dicts(norm(d), norm(d2))}")
    if not hasattr(cls, "from_dict"):
        c.hit("not_judged:no_from_dict")
        return
    for tag, dd in (("json", d2), ("direct", d)):
        try:
            back = cls.from_dict(dd)
        except Exception as e:
            c.violate(None, f"RT {label}: from_dict({tag} dictionary) raised {type(e).__name__}: {str(e)[:120]}")
            continue
        c.hit("RT_eq")
        try:
            same = back == obj
        except Exception as e:
            c.violate(None, f"RT {label}: comparing the round-tripped object raised {type(e).__name__}: {str(e)[:100]}")
            continue
        if not same:
            key = classify_rt(label, obj, back, d) if tag == "json" else None
            try:
                diff = _diff_dicts(d, back.to_dict())
            except Exception:
                diff = "?"
            if diff is None:
                # identical dictionaries, unequal objects: name the attributes that differ
                attrs = [a for a in getattr(obj, "__dict__", {}) if a in getattr(back, "__dict__", {})
                         and not a.startswith("__") and _neq(getattr(obj, a), getattr(back, a))]
                diff = f"none (dictionaries identical); unequal attributes: {attrs[:6]}"
            c.violate(key, f"RT {label.split(':')[0]}: from_dict({tag} form of to_dict(x)) != x; first difference of the dictionaries: {diff}",
                      {"label": label})


def _neq(a, b):
    try:
        r = a != b
        return bool(r) if isinstance(r, bool) else bool(getattr(r, "any", lambda: True)())
    except Exception:
        return False


def _key_json(label, d, e):
    return None


# ------------------------------------------------------------------------------------------------ generated components
def gen_components(rng):
    """Components built directly through the public create() functions with option values the histories never set."""
    from pharmpy.basic import Expr
    from pharmpy.model import (
        Assignment,
        Bolus,
        ColumnInfo,
        Compartment,
        DataInfo,
        EstimationStep,
        ExecutionSteps,
        Infusion,
        JointNormalDistribution,
        NormalDistribution,
        Parameter,
        Parameters,
        RandomVariables,
        SimulationStep,
    )

    out = []
    r = rng
    opt = lambda v, p=0.5: v if r.random() < p else None  # noqa: E731

    def tool_options():
        n = r.choice([0, 0, 1, 3])
        return {r.choice(["NOABORT", "SADDLE_RESET", "FAST", "SIGL", "CTYPE"]) + str(i): r.choice([1, 0.5, "x", "", True, None]) for i in range(n)}

    def est():
        syms = [Expr.symbol(n) for n in ("ETA_1", "ETA_2", "EPS_1", "ETA_CL")]
        ders = []
        for _ in range(r.choice([0, 0, 1, 2, 3])):
            ders.append(tuple(r.sample(syms, r.randint(1, 2))))
        return EstimationStep.create(
            r.choice(["fo", "FOCE", "its", "IMPMAP", "imp", "SAEM", "BAYES"]), interaction=r.random() < 0.5,
            parameter_uncertainty_method=opt(r.choice(["sandwich", "SMAT", "RMAT", "EFIM"])), evaluation=r.random() < 0.3,
            maximum_evaluations=opt(r.choice([1, 9999, 10**7])), laplace=r.random() < 0.3, isample=opt(r.randint(1, 3000)),
            niter=opt(r.randint(1, 500)), auto=opt(r.random() < 0.5), keep_every_nth_iter=opt(r.randint(1, 50)),
            residuals=r.sample(["CWRES", "RES", "WRES", "NPDE"], r.randint(0, 3)),
            predictions=r.sample(["PRED", "IPRED", "CIPREDI", "CPRED"], r.randint(0, 3)),
            solver=opt(r.choice(["cvodes", "DGEAR", "dverk", "IDA", "LSODA", "lsodi"]), 0.3), solver_rtol=opt(r.randint(1, 12), 0.3),
            solver_atol=opt(r.randint(1, 12), 0.3), tool_options=tool_options(), derivatives=tuple(ders),
            individual_eta_samples=r.random() < 0.3)

    steps = [est() for _ in range(r.randint(1, 3))]
    if r.random() < 0.5:
        steps.append(SimulationStep.create(n=r.randint(1, 1000), seed=r.randint(0, 2**31), solver=opt("LSODA", 0.3), tool_options=tool_options()))
    for i, st in enumerate(steps):
        out.append((f"{type(st).__name__}:gen{i}", st))
    out.append(("ExecutionSteps:gen", ExecutionSteps.create(steps)))

    def colinfo(name):
        typ = r.choice(list(ColumnInfo._all_types))
        cats = r.choice([None, None, (1, 2, 3), [0, 1], ("a", "b"), {"x": "X", "y": "Y"}, (1.5, 2.5)])
        return ColumnInfo.create(
            name, type=typ, unit=r.choice([None, "kg", "mg/L", "h", "1", "kg*m**-2"]), scale=r.choice(list(ColumnInfo._all_scales)),
            continuous=None if cats is not None else opt(r.random() < 0.5), categories=cats, drop=r.random() < 0.2,
            datatype=r.choice(list(ColumnInfo._all_dtypes)), descriptor=r.choice(list(ColumnInfo._all_descriptors)))

    cols = []
    for i in range(r.randint(1, 5)):
        try:
            cols.append(colinfo(f"COL{i}"))
        except (ValueError, TypeError):
            continue
    for col in cols:
        out.append((f"ColumnInfo:gen:{col.name}", col))
    if cols:
        try:
            out.append(("DataInfo:gen", DataInfo.create(cols, path=opt(Path("/x/y z/d.csv")), separator=r.choice([",", r"\s+", ";", "\t"]))))
        except (ValueError, TypeError):
            pass

    def num():
        return r.choice([0, 1, -1, 0.1, 1e-300, 1e300, 123456789.123456789, float(r.uniform(-5, 5)), r.randint(-10**12, 10**12), 1 / 3])

    pars = []
    for i in range(r.randint(1, 4)):
        init = num()
        lo = r.choice([-float("inf"), init - abs(init) - 1, init])
        up = r.choice([float("inf"), init + abs(init) + 1, init])
        try:
            pars.append(Parameter.create(f"P{i}", init, lower=lo, upper=up, fix=r.random() < 0.3))
        except ValueError:
            continue
    for q in pars:
        out.append((f"Parameter:gen:{q.name}", q))
    out.append(("Parameters:gen", Parameters.create(pars)))

    doses = []
    for i in range(r.randint(0, 3)):
        amt = r.choice(["AMT", "AMT2", 100, 2.5])
        if r.random() < 0.5:
            doses.append(Bolus.create(amt, admid=r.randint(1, 3)))
        elif r.random() < 0.5:
            doses.append(Infusion.create(amt, admid=r.randint(1, 3), rate=r.choice(["RATE", "R1", 2.5])))
        else:
            doses.append(Infusion.create(amt, admid=r.randint(1, 3), duration=r.choice(["D1", "DUR", 3])))
    for i, dose in enumerate(doses):
        out.append((f"{type(dose).__name__}:gen{i}", dose))
    try:
        comp = Compartment.create("COMP", doses=tuple(doses), input=r.choice([0, "R0", 1.5]), lag_time=r.choice([0, "ALAG1", 0.25]),
                                  bioavailability=r.choice([1, "F1", 0.5]))
        out.append(("Compartment:gen", comp))
    except (ValueError, TypeError):
        pass

    e = Expr.symbol
    out.append(("Assignment:gen", Assignment.create(e("X"), r.choice([
        e("A") + 1, e("A") ** 2 / e("B"), (e("A") * 2.5).exp(), Expr.piecewise((e("A"), e("B") > 0), (0, True)),
        Expr.float(0.1) * e("A"), Expr.integer(10) ** 20 + e("A"), e("A").log() - Expr.float(1e-300)]))))
    dists = [NormalDistribution.create("ETA_1", "iiv", 0, r.choice(["OM1", 0.25, 1]))]
    if r.random() < 0.7:
        dists.append(JointNormalDistribution.create(["ETA_2", "ETA_3"], r.choice(["iiv", "iov"]), [0, 0], [["OM2", "OM23"], ["OM23", "OM3"]]))
    if r.random() < 0.5:
        dists.append(NormalDistribution.create("EPS_1", "ruv", 0, "SI1"))
    for d in dists:
        out.append((f"{type(d).__name__}:gen", d))
    out.append(("RandomVariables:gen", RandomVariables.create(dists)))
    return out


# ------------------------------------------------------------------------------------------------ cases
def run_case(rng, idx, tier):
    c = Case()
    wd = Path(os.environ["VERIF_SCRATCH"]) / "c12"
    wd.mkdir(parents=True, exist_ok=True)
    kind = "xp" if idx % 20 == 4 else ("gen" if idx % 5 == 3 else "local")
    if kind == "xp":
        return case_xp(c, rng, idx, tier, wd)
    if kind == "gen":
        comps = []
        for _ in range(4):
            comps += gen_components(rng)
        c.sample = {"kind": "gen", "components": [f"{lab}: {str(obj)[:100]}" for lab, obj in comps][:40]}
        c.fp = fp_of("gen", [f"{lab}:{obj!r}" for lab, obj in comps])
        for label, obj in comps:
            rt_component(c, label, obj)
            c.hit("RT_generated")
        c.nontrivial = c.counters.get("RT", 0) >= 10
        return c
    spec = gen_spec(rng, tier, wd, idx)
    c.sample = {"kind": "local", "spec": {k: v for k, v in spec.items() if k != "path"}}
    c.fp = fp_of("local", json.dumps(c.sample, sort_keys=True, default=str))
    model = build_model(spec)
    if model is None:
        c.refusal = "read_model"
        return c
    if model.dataset is None:
        c.skipped = "no-dataset"
        return c
    # ---------------- RT
    for label, obj in components(model):
        rt_component(c, label, obj)
    from pharmpy.basic import Expr

    for e in exprs_of(model):
        c.hit("RT_expr")
        try:
            if Expr.deserialize(e.serialize()) != e:
                c.violate(None, f"RT Expr: deserialize(serialize(e)) != e for {str(e)[:80]}")
        except Exception as ex:
            c.violate(None, f"RT Expr: {type(ex).__name__}: {str(ex)[:100]} for {str(e)[:80]}")
    case_gc(c, model)
    base_key = key_of(model)
    case_inv(c, rng, model, base_key, reorder=(idx % 10 == 0))
    case_sens(c, rng, model, base_key)
    c.nontrivial = c.counters.get("RT", 0) >= 10
    return c


def case_gc(c, model):
    """Generic code round trip."""
    from pharmpy.model import Model
    from pharmpy.model.external.generic import parse_model
    from pharmpy.modeling import convert_model

    c.hit("GC")
    try:
        g = convert_model(model, "generic")
        code = g.code
    except Exception as e:
        c.violate(None, f"GC: converting to generic / printing code raised {type(e).__name__}: {str(e)[:120]}")
        return
    try:
        g2 = parse_model(code)
    except Exception as e:
        c.violate(None, f"GC: generic code does not parse back: {type(e).__name__}: {str(e)[:120]}")
        return
    rt_component(c, "Model", g)
    try:
        k1 = key_of(g)
        k2 = key_of(g2.replace(dataset=model.dataset, datainfo=g2.datainfo.replace(path=model.datainfo.path)))
    except Exception as e:
        c.violate(None, f"GC: hashing raised {type(e).__name__}: {str(e)[:120]}")
        return
    c.hit("GC_key")
    if k1 != k2:
        c.violate(_gc_key(g, g2), "GC: the model parsed back from its generic code has a different key than the model it was printed from")
    if k1 != key_of(model):
        c.violate(None, "GC: the generic-format model has a different key than the NONMEM-format model it was converted from")


def _gc_key(g, g2):
    d1, d2 = g.to_dict(), g2.to_dict()
    if _diff_dicts(norm(d1), norm(d2)) is None:
        return None
    return None


def _cs_reordered(cs, rng):
    """The same compartment graph built with compartments and flows inserted in another order."""
    from pharmpy.model import CompartmentalSystem, CompartmentalSystemBuilder, output

    names = list(cs.compartment_names)
    comps = [cs.find_compartment(n) for n in names]
    flows = []
    for a in comps:
        for b in comps:
            if a is not b:
                r = cs.get_flow(a, b)
                if r != 0:
                    flows.append((a, b, r))
        r = cs.get_flow(a, output)
        if r != 0:
            flows.append((a, output, r))
    rng.shuffle(comps)
    rng.shuffle(flows)
    cb = CompartmentalSystemBuilder()
    for comp in comps:
        cb.add_compartment(comp)
    for a, b, r in flows:
        cb.add_flow(a, b, r)
    return CompartmentalSystem(cb, t=cs.t)


def case_inv(c, rng, model, base_key, reorder=False):
    from pharmpy.model import CompartmentalSystem, Model, Statements
    from pharmpy.modeling import convert_model

    variants = []
    variants.append(("name/description", lambda: model.replace(name="other_name_%d" % rng.randint(0, 99), description="some other description")))
    variants.append(("data path", lambda: model.replace(datainfo=model.datainfo.replace(path=Path("/somewhere/else/data_%d.csv" % rng.randint(0, 9))))))
    variants.append(("generic format", lambda: convert_model(model, "generic")))
    variants.append(("dataset copy", lambda: model.replace(dataset=model.dataset.copy())))
    variants.append(("dict round trip", lambda: Model.from_dict(json.loads(json.dumps(model.to_dict()))).replace(
        dataset=model.dataset, datainfo=model.datainfo)))
    variants.append(("statements rebuilt", lambda: model.replace(statements=Statements(list(model.statements)))))
    cs = model.statements.ode_system
    if isinstance(cs, CompartmentalSystem) and reorder:  # stratum B: construct with a listed finding
        def reordered():
            new = _cs_reordered(cs, rng)
            sts = [new if isinstance(s, CompartmentalSystem) else s for s in model.statements]
            return model.replace(statements=Statements(sts))
        variants.append(("compartment graph rebuilt in another insertion order", reordered))
        variants.append(("compartment graph rebuilt in another insertion order", reordered))

    def rename_rt():
        from pharmpy.modeling import rename_symbols

        p = rng.choice(model.parameters.names)
        m1 = rename_symbols(model, {p: p + "_TMPX"})
        return rename_symbols(m1, {p + "_TMPX": p})
    variants.append(("parameter renamed and renamed back", rename_rt))
    for what, make in variants:
        try:
            v = make()
        except Exception as e:
            c.hit("inv_variant_failed:" + type(e).__name__)
            continue
        try:
            equal = (v == model) and v.dataset.equals(model.dataset)
        except Exception:
            equal = False
        if not equal and what not in ("name/description", "data path", "generic format", "dataset copy"):
            c.hit("not_judged:variant_not_equal")
            continue
        c.hit("INV")
        try:
            k = key_of(v)
        except Exception as e:
            c.violate(None, f"INV {what}: hashing raised {type(e).__name__}: {str(e)[:100]}")
            continue
        if k != base_key:
            key = "C12/key-depends-on-graph-insertion-order" if "insertion order" in what else None
            c.violate(key, f"INV {what}: same content (pharmpy calls the models equal, datasets equal) but a different key")
        c.states.append(fp_of(what))


def case_sens(c, rng, model, base_key):
    import pandas as pd  # noqa

    from pharmpy.basic import Expr
    from pharmpy.model import Assignment, NormalDistribution, Statements
    from pharmpy.modeling import fix_parameters, set_initial_estimates, unfix_parameters

    muts = []
    params = model.parameters
    nonfix = [p for p in params if not p.fix]

    def m_init():
        p = rng.choice(nonfix or list(params))
        new = p.init * 1.25 + (0.125 if p.init == 0 else 0)
        if new >= p.upper:
            new = (p.init + p.lower) / 2 if p.lower > -1e9 else p.init - 1
        return model.replace(parameters=params.replace(parameters=None) if False else type(params).create(
            [q.replace(init=new) if q.name == p.name else q for q in params]))
    muts.append(("one initial estimate", m_init))

    def m_bound():
        p = rng.choice(list(params))
        if rng.random() < 0.5:
            q2 = p.replace(upper=p.init + abs(p.init) + 7.5)
        else:
            q2 = p.replace(lower=p.init - abs(p.init) - 3.5)
        if q2 == p:
            q2 = p.replace(upper=p.init + 123.0)
        return model.replace(parameters=type(params).create([q2 if q.name == p.name else q for q in params]))
    muts.append(("one bound", m_bound))

    def m_fix():
        p = rng.choice(list(params))
        return model.replace(parameters=type(params).create([q.replace(fix=not q.fix) if q.name == p.name else q for q in params]))
    muts.append(("one fix flag", m_fix))

    def m_stmt():
        sts = list(model.statements)
        idxs = [i for i, s in enumerate(sts) if isinstance(s, Assignment)]
        rng.shuffle(idxs)
        for i in idxs:
            new = Assignment.create(sts[i].symbol, sts[i].expression + Expr.integer(1))
            # an expression that absorbs the addition (zoo, nan) is not a content change
            if new != sts[i] and str(new.expression) != str(sts[i].expression):
                sts[i] = new
                return model.replace(statements=Statements(sts))
        raise ValueError("no statement whose expression changes when 1 is added")
    muts.append(("one statement", m_stmt))

    def m_rv():
        rvs = model.random_variables
        dists = list(rvs)
        cand = [i for i, d in enumerate(dists) if isinstance(d, NormalDistribution)]
        i = rng.choice(cand)
        d = dists[i]
        dists[i] = NormalDistribution.create(d.names[0], d.level, d.mean, d.variance * 2)
        return model.replace(random_variables=type(rvs).create(dists))
    muts.append(("one variance", m_rv))

    def m_est():
        steps = model.execution_steps
        st = steps[0]
        new = st.replace(maximum_evaluations=(st.maximum_evaluations or 100) + 1)
        return model.replace(execution_steps=type(steps).create([new] + list(steps)[1:]))
    muts.append(("one estimation option", m_est))

    df = model.dataset

    def m_cell():
        new = df.copy()
        col = rng.choice([cn for cn in new.columns if str(new[cn].dtype).startswith("float")])
        r = rng.randrange(len(new))
        v = new[col].iloc[r]
        new.iloc[r, list(new.columns).index(col)] = (0.0 if v != v else v) + 0.5
        return model.replace(dataset=new)
    muts.append(("one data cell", m_cell))

    def m_dtype():
        new = df.copy()
        cols = [cn for cn in new.columns if str(new[cn].dtype) == "float64" and new[cn].notna().all() and (new[cn] == new[cn].round()).all()]
        col = rng.choice(cols)
        new[col] = new[col].astype("int64")
        return model.replace(dataset=new)
    muts.append(("one column dtype (same values)", m_dtype))

    def m_rows():
        new = df.copy()
        i, j = 0, len(new) - 1
        idx = list(range(len(new)))
        idx[i], idx[j] = idx[j], idx[i]
        new = new.iloc[idx].reset_index(drop=True)
        if new.equals(df):
            raise ValueError("same")
        return model.replace(dataset=new)
    muts.append(("row order", m_rows))

    def m_coltype():
        di = model.datainfo
        cands = [col for col in di if col.type in ("covariate", "unknown")]
        col = rng.choice(cands)
        new = col.replace(type="unknown" if col.type == "covariate" else "covariate")
        return model.replace(datainfo=di.create([new if q.name == col.name else q for q in di], path=di.path, separator=di.separator))
    muts.append(("one column type", m_coltype))

    def m_dv():
        dv = dict(model.dependent_variables)
        k = rng.choice(list(dv))
        dv[k] = dv[k] + 1
        return model.replace(dependent_variables=dv)
    muts.append(("DV mapping", m_dv))

    for what, make in muts:
        try:
            v = make()
        except Exception as e:
            c.hit("sens_mutation_failed:" + what)
            continue
        c.hit("SENS")
        try:
            k = key_of(v)
        except Exception as e:
            c.violate(None, f"SENS {what}: hashing the mutated model raised {type(e).__name__}: {str(e)[:100]}")
            continue
        if k == base_key:
            c.violate(None, f"SENS: changing {what} does not change the key")
        c.states.append(fp_of("sens", what))


# ------------------------------------------------------------------------------------------------ cross-process
def _child(items, hashseed, order=False, want_dict=False, timeout=600):
    env = dict(os.environ)
    env["PYTHONHASHSEED"] = hashseed
    env["PYTHONPATH"] = os.pathsep.join([str(Path(__file__).resolve().parents[2]), env.get("PYTHONPATH", "")])
    req = {"items": items, "order": order, "want_dict": want_dict}
    p = subprocess.run([sys.executable, "-W", "ignore", "-m", "vp.xproc_child"], input=json.dumps(req), capture_output=True,
                       text=True, timeout=timeout, env=env)
    if p.returncode != 0:
        raise RuntimeError(f"child failed ({p.returncode}): {p.stderr[-400:]}")
    return json.loads(p.stdout[p.stdout.index("{"):])["items"]


def case_xp(c, rng, idx, tier, wd):
    nspec = 10 if tier == "quick" else 16
    specs = [gen_spec(rng, tier, wd, idx) for _ in range(nspec)]
    c.sample = {"kind": "xp", "specs": [{k: v for k, v in s.items() if k != "path"} for s in specs]}
    c.fp = fp_of("xp", json.dumps(c.sample, sort_keys=True, default=str))
    items = [{k: v for k, v in s.items() if k != "text"} for s in specs]
    # this process
    mine = []
    for s in items:
        m = build_model(s)
        if m is None:
            mine.append(None)
            continue
        try:
            from pharmpy.workflows.hashing import ModelHash

            mh = ModelHash(m)
            mine.append({"key": str(mh), "dataset_key": mh.dataset_hash,
                         "dict_sha": hashlib.sha256(json.dumps(m.to_dict()).encode()).hexdigest(),
                         "code_sha": hashlib.sha256(m.code.encode()).hexdigest()})
        except Exception as e:
            mine.append({"error": f"{type(e).__name__}: {str(e)[:200]}"})
    results = {"parent": mine}
    for hs in HASHSEEDS:
        try:
            results[hs] = _child(items, hs, order=(hs == "4242"))
        except subprocess.TimeoutExpired:
            c.skipped = "child-timeout"
            return c
        c.hit("xp_children")
    for i, s in enumerate(items):
        rows = {k: (v[i] if v[i] is not None else {"error": "refused"}) for k, v in results.items()}
        errs = {k: r.get("error") for k, r in rows.items() if "error" in r}
        if errs:
            if len(errs) != len(rows) or len(set(errs.values())) != 1:
                c.violate(None, f"XP: building / hashing the same model fails in some processes only: {errs}", {"spec": specs[i]})
            else:
                c.hit("xp_model_refused_everywhere")
            continue
        codes = {r["code_sha"] for r in rows.values()}
        if len(codes) != 1:
            c.hit("not_judged:construction_not_deterministic")
            c.states.append("nondeterministic:" + json.dumps({k: v for k, v in specs[i].items() if k in ("start", "hist")}))
            continue
        c.hit("XP", len(rows) - 1)
        for field in ("key", "dataset_key", "dict_sha"):
            vals = {k: r[field] for k, r in rows.items()}
            if len(set(vals.values())) != 1:
                c.violate(None, f"XP: {field} of the same model (identical generated code) differs between interpreters: "
                                f"{ {k: v[:10] for k, v in vals.items()} }", {"spec": specs[i]})
                break
        c.states.append(rows["parent"]["key"][:12])
    c.nontrivial = c.counters.get("XP", 0) >= 4
    return c
