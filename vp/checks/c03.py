"""C03 Control streams round-trip losslessly; edits touch only what changed.

Monitors (all on the real parser / model objects):
  A  str(NMTranParser().parse(T)) == T                      byte for byte
  B  read_model_from_string(T).code == T and update_source().code == T (unmodified model, valid inits)
  C  after one single-component edit: every record whose kind the edit does not concern is byte-identical and in the
     same relative order (independent record splitter), and comment / verbatim lines of the concerned code records
     survive in order.
"""
from __future__ import annotations

import glob
import re

from vp.farm import Case, fp_of

PROP = "C03"
LEVEL = "exploration"
RULE = (
    "control streams from the corpus (120 files under tests/testdata and the packaged examples), from the C01 "
    "generator and from the C04 layout generator, passed through a seeded layout mutator (trailing blanks, tabs, "
    "blank and comment lines, lower-case / abbreviated record names, & continuations, text before the first record, "
    "unknown records, CRLF); distinct by text hash; non-trivial when the text has >= 5 records and at least one "
    "mutation or one edit was applied"
)
ASSUMPTIONS = [
    "record boundaries for the frame monitor: lines matching ^[ \\t]*\\$[A-Za-z] (own splitter)",
    "affected(edit) is a fixed table of record kinds per edit (generous: a record kind listed there is not compared)",
    "models whose initial estimates pharmpy adjusts on read are excluded from the no-op monitor (as the property says)",
]
MIN_NONTRIVIAL = {"quick": 600, "thorough": 8000}
REQUIRED_MONITORS = ["A_roundtrip", "B_code_equals_text", "B_update_source_noop", "C_frame"]

_corpus = []


def n_cases(tier):
    return 3000 if tier == "quick" else 60000


def setup(tier):
    import pharmpy.modeling  # noqa
    from pharmpy.model.external.nonmem.nmtran_parser import NMTranParser  # noqa

    files = sorted(glob.glob("/repo/tests/testdata/nonmem/**/*.mod", recursive=True)
                   + glob.glob("/repo/tests/testdata/nonmem/**/*.ctl", recursive=True)
                   + glob.glob("/repo/src/pharmpy/internals/example_models/*.mod"))
    for f in files:
        try:
            t = open(f, encoding="latin-1").read()
        except Exception:
            continue
        if "$PROB" in t.upper():
            _corpus.append((f, t))


# ---------------------------------------------------------------------------------------------- splitter
REC = re.compile(r"^[ \t]*\$([A-Za-z]+)", re.M)


def split(text):
    """-> (prefix, [(canonical kind, raw text incl. name)])"""
    from vp.nmtran_ref import canon_name

    ms = list(REC.finditer(text))
    if not ms:
        return text, []
    out = []
    for i, m in enumerate(ms):
        end = ms[i + 1].start() if i + 1 < len(ms) else len(text)
        out.append((canon_name(m.group(1)), text[m.start():end]))
    return text[:ms[0].start()], out


# ---------------------------------------------------------------------------------------------- mutator
ABBREV = {"PROBLEM": ["PROB", "PROBLEM", "PRO"], "INPUT": ["INPUT", "INP", "INPT"], "DATA": ["DATA", "DAT", "INFILE"],
          "SUBROUTINES": ["SUBROUTINES", "SUBROUTINE", "SUB", "SUBR", "SUBS"], "ESTIMATION": ["ESTIMATION", "EST", "ESTIM", "ESTM"],
          "COVARIANCE": ["COVARIANCE", "COV", "COVR"], "TABLE": ["TABLE", "TAB"], "THETA": ["THETA", "THE", "THET"],
          "OMEGA": ["OMEGA", "OME"], "SIGMA": ["SIGMA", "SIG"], "ERROR": ["ERROR", "ERR"], "MODEL": ["MODEL", "MOD"],
          "ABBREVIATED": ["ABBREVIATED", "ABBR", "ABBREV", "ABB"], "PRED": ["PRED", "PRE"], "PK": ["PK"], "DES": ["DES"]}


def mutate(rng, text, level):
    """Layout-only mutations.  Returns (text, list of mutation names)."""
    from vp.nmtran_ref import canon_name

    muts = []
    prefix, recs = split(text)
    out = []
    for kind, raw in recs:
        m = REC.match(raw)
        name = m.group(1)
        body = raw[m.end():]
        head = raw[:m.start(1) - 1]
        r = rng.random()
        if r < 0.15 * level and kind in ABBREV:
            newname = rng.choice(ABBREV[kind])
            if canon_name(newname) == kind:
                name = newname
                muts.append("abbrev")
        if rng.random() < 0.1 * level:
            name = name.lower()
            muts.append("lowercase_name")
        if rng.random() < 0.05 * level and head == "" and out:
            head = rng.choice(["  ", " ", "\t", "    "])
            muts.append("indented_record")
        lines = body.split("\n")
        new_lines = []
        for li, line in enumerate(lines):
            x = rng.random()
            if x < 0.06 * level and line.strip():
                line = line + rng.choice([" ", "  ", "\t", " \t "])
                muts.append("trailing_ws")
            elif x < 0.10 * level and li > 0:
                new_lines.append(rng.choice(["; a comment line", ";", "  ; indented comment", ";;; $NOTARECORD in a comment"]))
                muts.append("comment_line")
            elif x < 0.13 * level and li > 0 and kind not in ("PROBLEM",):
                new_lines.append("")
                muts.append("blank_line")
            elif x < 0.16 * level and kind in ("INPUT", "ESTIMATION", "TABLE", "SUBROUTINES") and " " in line.strip() and ";" not in line:
                toks = line.rstrip().split(" ")
                k = rng.randint(1, len(toks) - 1) if len(toks) > 1 else 0
                if k and toks[k] and toks[k - 1]:
                    line = " ".join(toks[:k]) + " &\n     " + " ".join(toks[k:])
                    muts.append("continuation")
            elif x < 0.19 * level and kind in ("INPUT", "ESTIMATION", "TABLE", "COVARIANCE") and " " in line.strip():
                line = line.replace(" ", "\t", 1) if rng.random() < 0.5 else line.replace(" ", "  ", 1)
                muts.append("tabs_or_double_space")
            elif x < 0.21 * level and line.strip() and ";" not in line and kind in ("THETA", "OMEGA", "SIGMA", "PK", "PRED", "ERROR"):
                line = line + rng.choice(["  ; trailing comment", ";tight comment", " ;; NAME with $ sign"])
                muts.append("trailing_comment")
            new_lines.append(line)
        out.append((kind, head + "$" + name + "\n".join(new_lines)))
    text2 = prefix + "".join(raw for _, raw in out)
    if rng.random() < 0.08 * level:
        text2 = rng.choice([";; 1. Based on: 5\n;; 2. Description: x\n", "; leading comment\n\n", "\n\n", "This is free text before the first record\n"]) + text2
        muts.append("text_before_first_record")
    if rng.random() < 0.05 * level and not text2.lstrip().upper().startswith("$SIZ"):
        # a $SIZES record stands before the first $PROBLEM; options pharmpy knows (LTH, PC) next to ones it does not
        text2 = rng.choice(["$SIZES LTH=120 PD=-70\n", "$SIZES PC=40 LVR=30 ; sizes\n", "$SIZES LTH=50 LVR=40 PC=35\n",
                            "$SIZES PD=-70\n"]) + text2
        muts.append("sizes_record")
    if rng.random() < 0.06 * level:
        # an unknown / rarely used record in the middle
        p2, r2 = split(text2)
        if len(r2) > 2:
            k = rng.randint(1, len(r2) - 1)
            extra = rng.choice(["$WARNINGS NONE\n", "$ABBR COMRES=2\n", "$PRIOR NWPRI\n", "$MIX\nNSPOP=2\n", "$LEVEL SID=(3)\n", "$ANNEAL 1-3:0.3\n"])
            if rng.random() < 0.4:
                extra = rng.choice(["  ", " ", "\t"]) + extra
                muts.append("indented_record")
            r2.insert(k, ("RAW", extra))
            text2 = p2 + "".join(raw for _, raw in r2)
            muts.append("unknown_record")
    if rng.random() < 0.04 * level and not text2.endswith("\n"):
        text2 += "\n"
    if rng.random() < 0.04 * level:
        text2 = text2.rstrip("\n")
        muts.append("no_final_newline")
    return text2, muts


# ---------------------------------------------------------------------------------------------- edits for C
def edit_table():
    import pharmpy.modeling as pm

    def thetas(m):
        rvp = set(m.random_variables.parameter_names)
        return [p for p in m.parameters if p.name not in rvp and not p.fix]

    def e_init(m, r):
        p = r.choice(thetas(m))
        v = p.init * 1.5 if p.lower < p.init * 1.5 < p.upper else p.init * 0.75
        return pm.set_initial_estimates(m, {p.name: round(v, 6)})

    def e_fix(m, r):
        return pm.fix_parameters(m, [r.choice(thetas(m)).name])

    def e_omega_init(m, r):
        names = [d.variance.name for d in m.random_variables.etas if len(d.names) == 1 and d.variance.is_symbol()
                 and not m.parameters[d.variance.name].fix]
        n = r.choice(names)
        return pm.set_initial_estimates(m, {n: round(float(m.parameters[n].init) * 1.5, 6)})

    def e_est(m, r):
        return pm.set_estimation_step(m, r.choice(["FO", "FOCE", "IMP"]), interaction=r.random() < 0.5)

    def e_add_cov_step(m, r):
        return pm.add_parameter_uncertainty_step(m, "SANDWICH") if not m.execution_steps[-1].parameter_uncertainty_method \
            else pm.remove_parameter_uncertainty_step(m)

    def e_error(m, r):
        return r.choice([pm.set_additive_error_model, pm.set_proportional_error_model, pm.set_combined_error_model])(m)

    def e_add_iiv(m, r):
        from pharmpy.modeling import get_individual_parameters

        ps = [p for p in m.statements.free_symbols if False]
        cands = [s.symbol.name for s in m.statements if hasattr(s, "symbol") and s.symbol.name in ("CL", "V", "VC", "KA", "P1", "P2", "TVCL", "TVV", "K")]
        return pm.add_iiv(m, r.choice(cands), "exp")

    def e_add_theta(m, r):
        return pm.add_population_parameter(m, f"NEWTH{r.randint(1, 99)}", 0.5, lower=0)

    def e_description(m, r):
        return pm.set_description(m, r.choice(["another title", "run 17 refit", "x"])).update_source()

    # edit -> (callable, set of record kinds the edit may legitimately touch)
    return {
        "set_init_theta": (e_init, {"THETA"}),
        "fix_theta": (e_fix, {"THETA"}),
        "set_init_omega": (e_omega_init, {"OMEGA"}),
        "set_estimation_step": (e_est, {"ESTIMATION", "COVARIANCE", "TABLE"}),
        "toggle_covariance_step": (e_add_cov_step, {"COVARIANCE", "ESTIMATION", "TABLE"}),
        # error-model setters may add/remove thetas: $PK/$DES statements that mention a renumbered THETA(n) are re-rendered
        # ... and they remove an eta on the residual error (IIV on RUV) together with its $OMEGA / $ABBR
        "set_error_model": (e_error, {"ERROR", "PRED", "SIGMA", "THETA", "PK", "DES", "OMEGA", "ABBREVIATED"}),
        "add_iiv": (e_add_iiv, {"PK", "PRED", "OMEGA", "ABBREVIATED"}),
        "add_theta": (e_add_theta, {"THETA"}),
        "set_description": (e_description, {"PROBLEM"}),
    }


# ---------------------------------------------------------------------------------------------- the case
def pick_text(rng):
    from vp.gen import nmtran as G

    x = rng.random()
    if x < 0.45 and _corpus:
        f, t = rng.choice(_corpus)
        return "corpus:" + f.split("/testdata/")[-1], t
    if x < 0.8:
        m = G.gen_model(rng, ("trans56",))
        return "gen:" + m["meta"]["kind"], m["text"].replace("DATAFILE", "data.csv")
    from vp.checks.c04 import gen_layout

    t, meta = gen_layout(rng)
    return "layout", t


def run_case(rng, idx, tier):
    from pharmpy.model.external.nonmem.nmtran_parser import NMTranParser
    from pharmpy.modeling import read_model_from_string

    c = Case()
    src, text = pick_text(rng)
    level = rng.choice([0, 1, 1, 2, 3])
    muts = []
    if level:
        text, muts = mutate(rng, text, level)
    if rng.random() < 0.03:
        text = text.replace("\n", "\r\n")
        muts.append("crlf")
    c.fp = fp_of(text)
    c.sample = {"source": src, "mutations": sorted(set(muts)), "text": text.splitlines()[:60]}
    prefix, recs = split(text)
    # ---- A
    try:
        cs = NMTranParser().parse(text)
    except Exception as e:
        c.refusal = type(e).__name__
        c.hit("A_refused:" + type(e).__name__)
        return c
    c.hit("A_roundtrip")
    back = str(cs)
    if back != text:
        i = next((k for k in range(min(len(back), len(text))) if back[k] != text[k]), min(len(back), len(text)))
        c.violate(_classify_A(text, back, muts), f"str(parse(T)) != T at offset {i}: expected {text[max(0,i-20):i+20]!r}, got {back[max(0,i-20):i+20]!r}",
                  {"mutations": sorted(set(muts))})
        c.nontrivial = True
        return c
    if "crlf" in muts or sum(1 for k, _ in recs if k == "PROBLEM") > 1:
        # CRLF files and control streams with several $PROBLEMs: only the parse/print round trip is judged
        c.hit("B_not_judged:crlf-or-multiple-problems")
        c.nontrivial = len(recs) >= 5
        return c
    # ---- B
    try:
        model = read_model_from_string(text)
        _ = model.statements
        _ = model.parameters
    except Exception as e:
        c.hit("B_model_refused:" + type(e).__name__)
        c.nontrivial = len(recs) >= 5 and bool(muts)
        return c
    c.hit("B_code_equals_text")
    if model.code != text:
        c.violate(_classify_B(text, model.code), "model.code of a freshly read model differs from the text: " + _diff(text, model.code))
        c.nontrivial = True
        return c
    adjusted = _inits_adjusted(text, model)
    if adjusted:
        c.hit("B_not_judged:initial-estimates-adjusted-on-read")
    else:
        try:
            up = model.update_source()
            c.hit("B_update_source_noop")
            if up.code != text:
                c.violate(_classify_B(text, up.code), "update_source() of an unmodified model changed the code: " + _diff(text, up.code))
                c.nontrivial = True
                return c
        except Exception as e:
            c.violate(None, f"update_source() of an unmodified model raised {type(e).__name__}: {e}")
            return c
    # ---- C
    E = edit_table()
    name = rng.choice(sorted(E))
    fn, affected = E[name]
    try:
        new = fn(model, rng)
        code = new.code
    except Exception as e:
        c.hit("C_edit_refused:" + name)
        c.nontrivial = len(recs) >= 5 and bool(muts)
        return c
    c.hit("C_frame")
    c.hit("C_edit:" + name)
    c.sample["edit"] = name
    # comments next to statements that the edit replaces may go with them: only edits that merely add statements
    # are required to keep every comment line of the code record they touch
    msg = frame_check(text, code, affected, comments=(name in ("add_iiv", "add_theta", "set_description")))
    if msg:
        c.violate(_classify_C(text, code, name, msg), f"after {name}: {msg}", {"code": code.splitlines()[:80]})
    c.nontrivial = len(recs) >= 5
    return c


def frame_check(text, code, affected, comments=True):
    p1, r1 = split(text)
    p2, r2 = split(code)
    if p1 != p2:
        return f"text before the first record changed: {p1!r} -> {p2!r}"
    keep1 = [(k, raw) for k, raw in r1 if k not in affected]
    keep2 = [(k, raw) for k, raw in r2 if k not in affected]
    # unrelated records: identical text, identical relative order
    if [raw for _, raw in keep1] != [raw for _, raw in keep2]:
        for a, b in zip(keep1, keep2):
            if a[1] != b[1]:
                return f"unrelated ${a[0]} record changed: {a[1]!r} -> {b[1]!r}"
        return f"unrelated records added/removed: {[k for k, _ in keep1]} -> {[k for k, _ in keep2]}"
    # comment / verbatim lines of affected code records survive in order
    for kind in ("PK", "PRED", "ERROR", "DES", "PROBLEM"):
        if kind not in affected or not comments:
            continue
        old = [l.strip() for k, raw in r1 if k == kind for l in raw.splitlines()[1:] if l.strip().startswith(";") or l.strip().startswith('"')]
        new = [l.strip() for k, raw in r2 if k == kind for l in raw.splitlines()[1:] if l.strip().startswith(";") or l.strip().startswith('"')]
        it = iter(new)
        if not all(any(x == y for y in it) for x in old):
            return f"comment/verbatim lines of ${kind} not preserved in order: {old} -> {new}"
    return None


def _diff(a, b):
    la, lb = a.splitlines(True), b.splitlines(True)
    for i, (x, y) in enumerate(zip(la, lb)):
        if x != y:
            return f"line {i+1}: {x!r} -> {y!r}"
    return f"length {len(la)} -> {len(lb)} lines; tail {la[len(lb):][:2]!r} / {lb[len(la):][:2]!r}"


def _inits_adjusted(text, model):
    """Did pharmpy change initial estimates while reading (non positive (semi)definite blocks are repaired)?"""
    from vp import nmtran_ref as R

    try:
        rm = R.read_control_stream(text)
    except Exception:
        return False
    import numpy as np

    for b in rm.omegas + rm.sigmas:
        if b.size > 1:
            try:
                if np.linalg.eigvalsh(np.array(b.matrix, dtype=float)).min() <= 0:
                    return True
            except Exception:
                return True
    return False


def _classify_A(text, back, muts):
    return None


NUMTOK = re.compile(r"[-+]?(?:\d+\.?\d*|\.\d+)(?:[EeDd][+-]?\d+)?")


def _norm_scaled(raw):
    """Numeric tokens of an SD/CORR/CHOLESKY $OMEGA/$SIGMA record rounded to 12 significant digits."""
    if not re.search(r"\b(SD|STANDARD|CORR\w*|CHOL\w*)\b", raw, re.I):
        return raw

    m = REC.match(raw)
    mags = []
    for t in NUMTOK.findall(raw[m.end():]):
        try:
            mags.append(abs(float(t.upper().replace("D", "E"))))
        except ValueError:
            pass
    tiny = 1e-12 * max(mags, default=0.0)

    def rnd(mm):
        try:
            v = float(mm.group(0).upper().replace('D', 'E'))
        except ValueError:
            return mm.group(0)
        # noise of the conversion to and from the covariance scale: 0.16 -> 0.15999999999999998, 0 -> -5.8e-18
        return "0" if abs(v) <= tiny else f"{v:.12g}"

    # keep the record name / options, normalise numbers everywhere after the record name
    return raw[:m.end()] + NUMTOK.sub(rnd, raw[m.end():])


def _explain(text, code, ignore_kinds=()):
    """Which normalisations make `code` equal to `text`?  Returns the list of needed ones or None."""
    p1, r1 = split(text)
    p2, r2 = split(code)
    if p1 != p2:
        return None
    r1 = [(k, raw) for k, raw in r1 if k not in ignore_kinds]
    r2 = [(k, raw) for k, raw in r2 if k not in ignore_kinds]
    steps = [
        ("C03/abbr-records-regenerated", lambda rs: [(k, raw) for k, raw in rs if k != "ABBREVIATED"]),
        ("C03/omega-scaled-block-respelled", lambda rs: [(k, _norm_scaled(raw) if k in ("OMEGA", "SIGMA") else raw) for k, raw in rs]),
        ("C03/records-reordered-around-parameter-records", lambda rs: sorted(rs)),
    ]
    import itertools

    for n in range(0, len(steps) + 1):
        for combo in itertools.combinations(range(len(steps)), n):
            a, b = r1, r2
            for i in combo:
                a, b = steps[i][1](a), steps[i][1](b)
            if a == b:
                return [steps[i][0] for i in combo]
    return None


def _classify_B(text, code):
    need = _explain(text, code)
    if need:
        return need[0]
    return None


def _classify_C(text, code, edit, msg):
    E = edit_table()
    affected = E[edit][1]
    p1, r1 = split(text)
    p2, r2 = split(code)
    k1 = [k for k, _ in r1]
    k2 = [k for k, _ in r2]
    if "SIMULATION" in k1 and "SIMULATION" not in k2 and [k for k in k1 if k != "SIMULATION" and k not in affected] == [k for k in k2 if k not in affected]:
        return "C03/simulation-record-dropped"
    if msg.startswith("unrelated $MSFI record changed"):
        return "C03/msfi-record-rewritten"
    if (msg.startswith("unrelated $ERROR record changed") or msg.startswith("unrelated $PRED record changed")) and \
            any(re.search(r"IF\s*\(\s*DVID", raw, re.I) for k, raw in r1 if k in ("ERROR", "PRED")):
        # everything else untouched?
        need = _explain(text, code, ignore_kinds=set(affected) | {"ERROR", "PRED"})
        if need is not None:
            return "C03/dvid-block-rewritten"
    need = _explain(text, code, ignore_kinds=affected)
    if need and "comment/verbatim" not in msg:
        return need[0]
    return None
