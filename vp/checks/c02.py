"""C02 Generated NONMEM code means what the transformed model means (IR -> NM-TRAN).

After every step of a random transformation history the generated control stream is interpreted by vp.nmtran_ref
and compared (vp.denote) with the in-memory model evaluated by vp.ir_eval; the model is also written to disk,
read back and compared with the same text, and its dataset compared cell by cell.
"""
from __future__ import annotations

import os
import random
import shutil
from pathlib import Path

from vp.farm import Case, fp_of

PROP = "C02"
LEVEL = "exploration"
RULE = (
    "random histories (length <= 6) over 52 public transformations from corpus start models "
    "(pheno iv/oral/zero-order/2-compartment) and generated ADVAN1-13 start models; every successful step is judged; "
    "a case is distinct by (start model, sequence of applied steps) and non-trivial when >= 2 steps succeeded and "
    "were judged by the code-vs-model monitor"
)
ASSUMPTIONS = [
    "verdict rule: a mismatch that no listed mechanism explains is decided (reported) only when pharmpy contradicts "
    "itself - of the in-memory model M and pharmpy's own re-reading of the code generated from M exactly one agrees "
    "with the reference reading of that code; otherwise the case is inconclusive (counted as uncertified_mismatch)",
    "NM-TRAN semantics = vp.nmtran_ref",
    "THETA(n)/ETA(n)/EPS(n) are aligned with model parameters / random variables by position",
    "compartments aligned by name, unmatched names by any permutation that makes field, doses, F and Y agree",
    "steps that raise are skipped here (totality is judged by C08)",
]
MIN_NONTRIVIAL = {"quick": 120, "thorough": 1800}
REQUIRED_MONITORS = ["params", "field", "error_vars", "reread_params", "dataset_equal"]
BATCH_TIMEOUT = {"quick": 2400, "thorough": 6 * 3600}


QUICK_N = 400
THOROUGH_BLOCKS = 15
# The universe of generated histories is fixed: UNIVERSE_BLOCKS blocks of QUICK_N cases (block b = the cases that the
# generator Random("C02:b:idx") produces).  Every block was run on the unchanged tree and every certified mismatch in it
# is listed (DESIGN.md 10.7).  VERIF_SEED selects the block of the quick tier (seed mod UNIVERSE_BLOCKS) and the first
# block of the thorough tier; VERIF_C02_FRESH=1 uses the seed itself (exploration beyond the universe: on this code base
# roughly every second fresh block meets a certified mismatch that is not listed yet).
UNIVERSE_BLOCKS = 30


# further cases per block whose start model is one of the repository's own test models that the start-model pool does not
# hold (mox2: first-order absorption from NONMEM code with a CMT column in use, mox1); indices QUICK_N .. QUICK_N+EXTRA_N-1
EXTRA_N = 80
BLOCK_N = QUICK_N + EXTRA_N


def n_cases(tier):
    # thorough = the quick cases of 15 seeds (the given seed and the blocks 0..14 other than it): the same generator at
    # the same depth per case, fifteen times the breadth
    return BLOCK_N if tier == "quick" else BLOCK_N * THOROUGH_BLOCKS


def setup(tier):
    import pharmpy.modeling  # noqa
    import pharmpy.tools  # noqa

    from vp import histories

    histories.start_models()
    histories.extra_models()


def judge_step(model, c, rng, K, wd, step_no, do_write):
    """Raises denote.Mismatch.  Returns 'ok' / 'unsupported:<why>' / 'nopoint'."""
    from vp import denote
    from vp import nmtran_ref as R

    text = model.code
    try:
        td = denote.TextDen(text)
    except R.Unsupported as e:
        c.hit("ref_unsupported")
        return f"unsupported:{e}"
    ird = denote.IRDen(model)
    recs = denote.records_of(model)
    dose_info = denote.dose_info_from_records(td, recs) if td.rm.advan else None
    try:
        denote.compare_parameters(td, ird, c)
        j = denote.compare_dynamic(td, ird, recs, rng, K, c, dose_info=dose_info)
    except denote.Mismatch as mm:
        mm.pair = (td, ird, recs, "code-vs-model")
        raise
    if do_write:
        from pharmpy.modeling import read_model, write_model

        d = wd / f"w{step_no}"
        d.mkdir(parents=True, exist_ok=True)
        path = d / "m.mod"
        try:
            wm = write_model(model, path, force=True)
        except Exception as e:
            c.hit("write_failed:" + type(e).__name__)
            return "ok" if j else "nopoint"
        re_model = read_model(path)
        text2 = path.read_text()
        td2 = denote.TextDen(text2)
        ird2 = denote.IRDen(re_model)
        try:
            denote.compare_parameters(td2, ird2, c, "reread_")
            denote.compare_dynamic(td2, ird2, recs, rng, max(2, K // 2), c, "reread_", dose_info=dose_info)
        except denote.Mismatch as mm:
            mm.pair = (td2, ird2, recs, "written-text-vs-reread-model")
            mm.what = "[reread] " + mm.what
            raise
        # the written text must denote the same as the in-memory code (file names aside)
        try:
            denote.compare_parameters(td2, ird, c, "written_")
        except denote.Mismatch as mm:
            mm.pair = (td2, ird, recs, "written-text-vs-model")
            mm.what = "[written] " + mm.what
            raise
        # dataset
        a, b = model.dataset, re_model.dataset
        if a is not None and b is not None:
            c.hit("dataset_equal")
            if list(a.columns) != list(b.columns) or len(a) != len(b):
                raise denote.Mismatch(f"dataset after write/read: columns/rows differ {list(a.columns)} x{len(a)} vs {list(b.columns)} x{len(b)}")
            import numpy as np

            for col in a.columns:
                x = a[col].to_numpy()
                y = b[col].to_numpy()
                try:
                    same = np.array_equal(x.astype(float), y.astype(float), equal_nan=True)
                except (TypeError, ValueError):
                    same = list(map(str, x)) == list(map(str, y))
                if not same:
                    raise denote.Mismatch(f"dataset after write/read: column {col} differs")
        shutil.rmtree(d, ignore_errors=True)
    return "ok" if j else "nopoint"


def f_link_signature(td, ird):
    """Structural signature of a broken F link between generated code and model (None if consistent)."""
    import re

    import sympy
    from sympy.core.function import AppliedUndef

    from vp import denote
    from vp import nmtran_ref as R

    fst = [s for s in ird.after if getattr(s, "symbol", None) is not None and s.symbol.name == "F"]
    if not fst or not td.rm.advan:
        return None
    e = denote.to_sympy_expr(fst[0].expression)
    funcs = list(e.atoms(AppliedUndef))
    if len(funcs) != 1 or e.has(sympy.Piecewise):
        return None
    cname = funcs[0].func.__name__[2:]
    if cname not in td.names:
        return None
    n = td.names.index(cname) + 1
    den = sympy.fraction(sympy.together(e))[1]
    has_den = den != 1
    s_assigned = [p for p in td.pk_names if re.fullmatch(r"S\d+|SC", p)]
    lib = td.rm.advan in R.LIB_NAMES
    effective = f"S{n}" in s_assigned or (lib and cname == "CENTRAL" and "SC" in s_assigned)
    if n != R.default_obs_comp(td.rm):
        return "C02/defobs-lost"
    if has_den and not effective:
        return "C02/obs-scaling-param-stale" if s_assigned else "C02/obs-scaling-dropped"
    return None


def dose_signature(td, ird, recs, start_cols):
    """Signature of inconsistent dose events between (code + data) and model."""
    from vp import denote

    if not td.rm.advan or ird.cs is None:
        return None
    info = denote.dose_info_from_records(td, recs)
    names = td.names
    ir_doses = {}
    for n in ird.cnames:
        comp = ird.cs.find_compartment(n)
        kinds = set()
        for d in comp.doses:
            kinds.add("bolus" if type(d).__name__ == "Bolus" else "infusion")
        if kinds:
            ir_doses[n] = kinds
    data_doses = {}
    for comp, kinds in info.items():
        if 1 <= comp <= len(names):
            data_doses[names[comp - 1]] = {("bolus" if k == "bolus" else "infusion") for k in kinds}
    if data_doses == ir_doses:
        return None
    if start_cols & {"CMT", "RATE"}:
        return "C02/preexisting-cmt-rate-columns"
    # RATE column introduced by pharmpy itself and left behind
    if set(data_doses) == set(ir_doses) and all(ir_doses[k] == {"bolus"} for k in ir_doses):
        return "C02/stale-rate-column"
    return None


def kij_signature(td, ird):
    """ADVAN5/7: a $PK variable named like a rate constant (Kij / KiTj) that is not a flow of the model."""
    import re

    if td.rm.advan not in ("ADVAN5", "ADVAN7") or ird.cs is None:
        return set()
    rates = set()
    for n in ird.cnames:
        comp = ird.cs.find_compartment(n)
        for dest, rate in ird.cs.get_compartment_outflows(comp):
            rates |= {str(x) for x in rate.free_symbols}
    return {p for p in td.pk_names if re.fullmatch(r"K\d+(T\d+)?", p) and p not in rates}


def lagbio_signature(td, ird):
    """User-written Fn/ALAGn kept under its old number although its compartment was renumbered."""
    import re

    if ird.cs is None:
        return False
    for p in td.pk_names:
        m = re.fullmatch(r"(F|ALAG)(\d+)", p)
        if not m:
            continue
        n = int(m.group(2))
        if not 1 <= n <= len(td.names) or td.names[n - 1] not in ird.cnames:
            continue
        here = ird.cs.find_compartment(td.names[n - 1])
        attr = "bioavailability" if m.group(1) == "F" else "lag_time"
        if p in {str(x) for x in getattr(here, attr).free_symbols}:
            continue
        # the symbol sits on another compartment of the model, or on none at all (the model dropped it while the
        # code still assigns the reserved name)
        return True
    return False


def classify(mm, start_cols, rng, K):
    """Attribute a mismatch to listed mechanisms.  Each mechanism has a structural *signature* on (text, model) and
    a *repair* that neutralises exactly that aspect of the comparison; the mismatch is attributed iff the
    comparison passes once the repairs of all present signatures are applied (delta check).  Returns the primary
    key (fixed priority order) or None (= unclassified, reported as a violation)."""
    import copy

    from vp import denote
    from vp.farm import Case

    if getattr(mm, "pair", None) is None:
        return None
    td, ird, recs, stage = mm.pair
    what = mm.what
    if "number of compartments" in what and "METABOLITE" in ird.cnames and "METABOLITE" not in td.names:
        return "C02/metabolite-code-stale"
    # a second add_indirect_effect (or another PD / metabolite extension adding a compartment of a name that exists)
    # gives a model with two compartments of one name: amounts, flows and the $MODEL record are then ambiguous
    mc = getattr(mm, "model_cnames", [])
    if (ird.cs is not None and len(set(ird.cnames)) < len(ird.cnames)) or len(set(mc)) < len(mc):
        return "C02/duplicate-compartment-name"
    if "ETA_DUMMY" in what and stage == "written-text-vs-reread-model":
        import re as _re0

        abbr = "\n".join(c for n, c in td.rm.records if n.startswith("ABBR"))
        if _re0.search(r"REPLACE\s+eta_dummy\s*=", abbr) and "ETA_DUMMY" in _code_of(td).upper():
            return "C02/eta-dummy-abbr-case-mismatch"
    if stage == "written-text-vs-reread-model" and td.rm.des and "d/dt of compartment" in what:
        # delta: the very same written text agrees with the in-memory model (judged just before) - so it is
        # pharmpy's reading of its own $DES output that is not equivalent
        return "C02/reread-des-not-equivalent"
    code = _code_of(td)
    import re as _re

    if any(".AND." in l.upper() and ".OR." in l.upper() for l in code.splitlines()):
        from vp import nmtran_ref as R

        R.OR_TIGHT = True
        try:
            td_or = denote.TextDen("\n".join("$" + n + " " + c if n not in ("PROBLEM",) else "$PROBLEM x\n" for n, c in td.rm.records))
            sc = Case()
            di = denote.dose_info_from_records(td_or, recs)
            if denote.compare_dynamic(td_or, ird, recs, rng, K, sc, dose_info=di):
                return "C02/boolean-or-inside-and-printed-flat"
        except Exception:
            pass
        finally:
            R.OR_TIGHT = False
    td = copy.copy(td)
    td.rm = copy.copy(td.rm)
    mechs = []
    kw = {}
    skip_fix = False
    try:
        if "block" in what and "fixedness: text False, model True" in what:
            mechs.append("C02/block-fix-lost-on-eta-removal")
            skip_fix = True
        extra_k = kij_signature(td, ird)
        if extra_k:
            mechs.append("C02/leftover-kij-variable-advan5")
            td.rm.ignore_k = extra_k
        fsig = f_link_signature(td, ird)
        if fsig:
            mechs.append(fsig)
            kw["f_from_ir"] = True
        dsig = dose_signature(td, ird, recs, start_cols)
        if not dsig and (start_cols & {"CMT", "RATE"}) and any(
                w in what for w in ("doses into compartment", "rate parameter R", "duration parameter D",
                                    "model has doses into")):
            dsig = "C02/preexisting-cmt-rate-columns"
        if dsig:
            mechs.append(dsig)
            kw["skip_events"] = True
        elif lagbio_signature(td, ird):
            mechs.append("C02/user-fn-alag-not-renumbered")
            kw["skip_events"] = True
        raw_eta = bool(td.rm.abbr) and any("ETA_" in n for n in ird.eta_names) and "ETA(" in _code_of(td)
        if raw_eta:
            # raw ETA(k) next to $ABBR REPLACE names: read ETA(k) as the model's ETA_k
            td.eta_name_env = list(ird.eta_names)
        if _error_reads_amounts(td) and ird.cnames != td.names:
            td.err_amount_names = list(ird.cnames)
    except Exception:
        return None

    def attempt(free_perm):
        sc = Case()
        denote.compare_parameters(td, ird, sc, skip_block_fix=skip_fix)
        di = None if kw.get("skip_events") else denote.dose_info_from_records(td, recs)
        j = denote.compare_dynamic(td, ird, recs, rng, K, sc, dose_info=di, free_perm=free_perm, **kw)
        return j, sc

    try:
        j, sc = attempt(False)
        if j:
            if mechs:
                return mechs[0]
            if td.eta_name_env:
                return "C02/raw-eta-index-stale-after-reorder"
            if td.err_amount_names:
                return "C02/amount-index-canonical-vs-model-record"
            return None
    except denote.Mismatch:
        pass
    # relabelling: the code is the model with compartment names attached to other equations
    try:
        kw2 = dict(kw)
        kw["f_from_ir"] = True
        kw["skip_events"] = True
        j, sc = attempt(True)
        perms = getattr(sc, "last_perms", None) or []
        if j and perms and all(any(td.names[i] != nm for i, nm in p.items()) for p in perms):
            return "C02/model-record-order-vs-des"
    except denote.Mismatch:
        pass
    return None


def certify(model, mm, wd, rng, K):
    """True when pharmpy contradicts itself on this model: M vs text and read(text) vs text give different verdicts."""
    from pharmpy.modeling import read_model, write_model

    from vp import denote

    stage = mm.pair[3] if getattr(mm, "pair", None) else None
    if stage == "written-text-vs-reread-model" or stage == "written-text-vs-model":
        return True  # the code-vs-model comparison of the same step had passed: M agrees with the text, M' does not
    if stage != "code-vs-model":
        return False
    d = wd / "cert"
    d.mkdir(parents=True, exist_ok=True)
    try:
        path = d / "m.mod"
        write_model(model, path, force=True)
        re_model = read_model(path)
        td2 = denote.TextDen(path.read_text())
        ird2 = denote.IRDen(re_model)
        recs = mm.pair[2]
        dose_info = denote.dose_info_from_records(td2, recs) if td2.rm.advan else None
        sc = Case()
        denote.compare_parameters(td2, ird2, sc)
        j = denote.compare_dynamic(td2, ird2, recs, rng, K, sc, dose_info=dose_info)
        return bool(j)
    except Exception:
        return False
    finally:
        shutil.rmtree(d, ignore_errors=True)


def symptom(what):
    """Symptom class of a mismatch message: the message up to the first colon without numbers and names."""
    import re

    w = what.split(":")[0]
    w = re.sub(r"\(.*?\)", "", w)
    if w.lstrip("[]a-z ").startswith("$") and " variable" in w:
        w = w[: w.index(" variable") + len(" variable")]  # drop the variable's name
    w = re.sub(r"\d+", "", w)
    return re.sub(r"\s+", " ", w).strip().replace(" ", "_")


def start_class(sname):
    if sname.startswith("gen:"):
        return "gen"  # generated control stream
    return sname if sname.startswith("mox") else "corpus"  # repository test model / packaged pheno variant


def reduce_history(A, start_model, hist, seeds, jseed, K, wd, want, c):
    """Greedy one-at-a-time reduction (to a fixpoint) of the failing history prefix.  A candidate fails when, after
    its last step, the code-vs-model / write / re-read comparison raises a mismatch of the same symptom class that the
    mechanism classifier cannot attribute either.  Steps keep their own option generators."""
    from vp import denote

    steps = list(zip(hist, seeds))

    def fails(cand):
        model = start_model
        n_applied = 0
        for name, sd in cand:
            try:
                new = A[name][1](model, random.Random(sd))
            except Exception:
                continue
            if new is None:
                continue
            model = new
            n_applied += 1
        if not n_applied:
            return False
        c.hit("reduction_evaluations")
        try:
            judge_step(model, Case(), random.Random(jseed), K, wd, 99, do_write=True)
        except denote.Mismatch as mm:
            return symptom(mm.what) == want
        except Exception:
            return False
        return False

    if not fails(steps):
        return None  # not reproducible with the write stage forced: leave unclassified
    changed = True
    while changed and len(steps) > 1:
        changed = False
        for i in range(len(steps)):
            cand = steps[:i] + steps[i + 1:]
            if cand and fails(cand):
                steps = cand
                changed = True
                break
    return [n for n, _ in steps]


def _code_of(td):
    return "\n".join(c for n, c in td.rm.records if n in ("PK", "ERROR", "PRED", "DES"))


def _error_reads_amounts(td):
    import re

    return any(re.search(r"\bA\(\d+\)", c) for n, c in td.rm.records if n == "ERROR")


def run_case(rng, idx, tier):
    from vp import denote, histories

    c = Case()
    K = 4
    maxlen = 6
    fresh = os.environ.get("VERIF_C02_FRESH") == "1"
    base = int(os.environ.get("VERIF_SEED", "0") or 0)
    if not fresh:
        base %= UNIVERSE_BLOCKS
    if tier != "quick":
        blocks = [base] + [b for b in range(THOROUGH_BLOCKS) if b != base][: THOROUGH_BLOCKS - 1]
        sub, idx0 = blocks[idx // BLOCK_N], idx % BLOCK_N
        rng = random.Random(f"{PROP}:{sub}:{idx0}")  # exactly the generator of quick case idx0 under seed `sub`
    else:
        idx0 = idx
        rng = random.Random(f"{PROP}:{base}:{idx}")  # = farm.case_rng for seeds inside the universe
    wd = Path(os.environ["VERIF_SCRATCH"]) / f"c{idx}"
    A = histories.alphabet()
    try:
        if idx0 >= QUICK_N:
            extra = histories.extra_models()
            sname = rng.choice(sorted(extra))
            model = extra[sname]
            model = model.replace(dataset=model.dataset.copy())
            c.hit("extra_start_model")
        elif rng.random() < 0.6:
            starts = histories.start_models()
            sname = rng.choice(sorted(starts))
            model = starts[sname]
            # the corpus start models are shared by all cases of a worker: give each case its own DataFrame so that
            # an in-place dataset mutation (judged by C06) cannot leak from one case into the next
            if model.dataset is not None:
                model = model.replace(dataset=model.dataset.copy())
        else:
            model, gm = histories.gen_start_model(rng, wd)
            if model is None:
                c.skipped = "no-start-model"
                return c
            sname = f"gen:{gm['meta'].get('advan')}:{gm['meta'].get('trans')}"
        start_cols = set(model.dataset.columns) if model.dataset is not None else set()
        hist = histories.random_history(rng, rng.randint(2, maxlen))
        # every step draws its options from its own generator, so that a history with steps removed replays the
        # remaining steps identically (needed by the history reduction of unclassified mismatches)
        seeds = [rng.getrandbits(32) for _ in hist]
        jseeds = [rng.getrandbits(32) for _ in hist]
        wflags = [rng.random() < 0.35 for _ in hist]
        start_model = model
        applied = []
        judged = 0
        c.sample = {"start": sname, "history": hist, "applied": applied}
        for step_no, name in enumerate(hist):
            try:
                new = A[name][1](model, random.Random(seeds[step_no]))
            except Exception as e:
                kind = histories.classify_exception(e)
                c.hit(f"step_{kind}")
                if kind == "internal":
                    c.hit(f"step_internal:{name}:{type(e).__name__}")
                continue
            if new is None:
                continue
            model = new
            applied.append(name)
            try:
                res = judge_step(model, c, random.Random(jseeds[step_no]), K, wd, step_no,
                                 do_write=(step_no == len(hist) - 1 or wflags[step_no]))
            except denote.Mismatch as mm:
                try:
                    mm.model_cnames = list(model.statements.ode_system.compartment_names)
                except Exception:
                    mm.model_cnames = []
                key = classify(mm, start_cols, random.Random(7), K)
                detail = {"start": sname, "applied": list(applied), "code": model.code.splitlines(), "detail": mm.detail}
                if key is None:
                    # attribute by history: the shortest sub-history that still shows the same symptom
                    try:
                        minimal = reduce_history(A, start_model, hist[: step_no + 1], seeds, jseeds[step_no], K, wd, symptom(mm.what), c)
                    except Exception as e:  # noqa
                        minimal = None
                        c.hit("reduction_error:" + type(e).__name__)
                    if minimal is not None:
                        key = f"C02/h:{start_class(sname)}:{'>'.join(minimal)}:{symptom(mm.what)}"
                        detail["minimal_history"] = minimal
                        # certificate that the defect is pharmpy's and not the reference reader's: of the in-memory
                        # model M and pharmpy's own re-reading M' of the code it generated from M, exactly one agrees
                        # with the reference reading of that code - so M and read(write(M)) differ
                        detail["self_contradiction"] = certify(model, mm, wd, random.Random(jseeds[step_no]), K)
                        c.hit("certified_self_contradiction" if detail["self_contradiction"] else "not_certified")
                if key is None or (key.startswith("C02/h:") and not detail.get("self_contradiction")):
                    # Verdict rule: an unattributed mismatch between generated code and model is DECIDED only when
                    # pharmpy contradicts itself on it (certify).  When pharmpy's own reading of the code agrees with
                    # the in-memory model and only the reference reading differs, the disagreement is about NM-TRAN
                    # semantics of the text (C01's subject, or a limit of the reference / of 50-digit arithmetic):
                    # the case is inconclusive here - counted and shown in the evidence, never reported as held.
                    if not detail.get("self_contradiction") and not certify(model, mm, wd, random.Random(jseeds[step_no]), K):
                        c.hit("uncertified_mismatch")
                        c.skipped = "uncertified-mismatch"
                        c.sample["uncertified"] = {"after": list(applied), "what": mm.what[:300]}
                        break
                c.hit("classified" if key else "unclassified")
                c.violate(key, f"after {applied}: {mm.what}", detail)
                break
            except Exception as e:
                # the judge itself met something it cannot handle: harness limitation, counted
                c.hit(f"judge_error:{type(e).__name__}")
                import traceback

                c.sample["judge_error"] = traceback.format_exc()[-800:]
                break
            if res == "ok":
                judged += 1
                c.hit("steps_judged")
            elif res.startswith("unsupported"):
                c.hit("steps_unsupported")
                c.sample.setdefault("unsupported", []).append(res[:80])
            else:
                c.hit("steps_nopoint")
        c.fp = fp_of(sname, applied)
        c.nontrivial = judged >= 2
    finally:
        shutil.rmtree(wd, ignore_errors=True)
    return c


def extra_coverage(recs, tier):
    """The inconclusive (uncertified) mismatches of this run, written out so that a reader sees them."""
    out = []
    for r in recs:
        s = r.get("sample")
        if isinstance(s, dict) and s.get("uncertified"):
            out.append({"idx": r.get("idx"), "start": s.get("start"), **s["uncertified"]})
    return {"uncertified_mismatches": out[:40], "uncertified_mismatches_total": len(out)}
