"""C16 Model database and run context are atomic and faithful, even across crashes.

Three monitors, all driven by JSON-able *workloads* (vp.gen.modeldb) of real LocalDirectoryContext /
LocalModelDirectoryDatabase calls that are executed in forked child processes:

* fidelity: the workload runs without faults, a *fresh* process opens the directory with fresh objects and every
  retrieve_* is compared with what the store calls were given (model `==` + independent parameter / dataset cell
  comparison, results after one JSON round trip, name, description, annotations, metadata, log rows in order and
  verbatim).
* crash (vp.crashfs): the workload is run once to number its file-system mutation events 1..N, then for EVERY k
  (one flavour per case: exception before event k / os._exit before event k / torn write = the file opened by
  event k-1 is cut to a prefix, then os._exit) a child re-runs it with the fault, and a fresh restart process
  evaluates (A) no partial entry visible as complete, (B) everything whose call had returned before the fault
  is still retrievable and faithful, (C) every model other than the in-flight one can still be stored and is
  then retrievable (in particular the one sharing the crashed model's dataset).
* concurrency: 2-3 real processes store / retrieve the same models at the same time; every retrieval is judged
  by (A), after the join by (B).

The reference is a plain replay of the workload's *returned* calls (dict name -> entry, list of log rows, ...);
no pharmpy function anchored by the property computes an expected value.
"""
from __future__ import annotations

import hashlib
import json
import os
import random
import re
import shutil
import time
from collections import Counter

from vp import crashfs
from vp.farm import Case, fp_of
from vp.gen import modeldb as G

PROP = "C16"
LEVEL = "fault_enumeration"
RULE = (
    "crash cases (the first block of indices, 5 consecutive indices share one workload: exception / exit flavour "
    "x first / second half of the k, torn flavour): a random workload = open context + 2..4 operations "
    "(store_model_entry / store_input / store_final / database store / log_* with hostile message / "
    "store_annotation / store_metadata / retrievals) over 2..3 small NONMEM models, model 1 sharing model 0's "
    "dataset (same file or a copy with equal content), model 0 and 55% of the others with ModelfitResults; EVERY mutation event k of the "
    "workload is a crash point of exactly one of its sub-cases in each flavour "
    "(torn: every truncating/appending open); restart oracle evaluated once per distinct (directory tree, "
    "returned operations, in-flight operation). stratum 'restore' (20%) stores one model a second time under "
    "another name. fidelity cases: workloads of up to 14 operations, models from the NM-TRAN grammar generator "
    "(50%) or the small templates, 6..20 hostile log messages; strata A 51% / every log message number-like / NA-like log message / newline in "
    "annotation / name with blank / name with comma or quote / name stored twice / same data other datainfo "
    "7% each. concurrency cases: 2-3 processes x 4-6 operations on 2-3 models. distinct = fingerprint of the "
    "workload spec; non-trivial = crash: all crash points of the sub-case enumerated and >= 10 of them (torn: >= 4) and >= 2 models; "
    "fidelity: >= 1 store and >= 3 log rows judged; concurrency: >= 2 processes finished and >= 1 retrieval "
    "returned an entry"
)
ASSUMPTIONS = [
    "a call that returned normally is committed (DESIGN.md A.5); the single in-flight call may be absent or complete",
    "retrieval by key promises the model, dataset and results, not the name/description (ModelHash ignores both); "
    "retrieval by name additionally promises name and description (= the stored annotation)",
    "any exception from a retrieve_* of an entry that was never committed is a refusal (no entry was obtained); "
    "KeyError / FileNotFoundError / PendingTransactionError are the documented ones, others are counted as "
    "refusal_other:<type>",
    "torn write: only a file opened with O_TRUNC or O_APPEND by the immediately preceding mutation event is cut, to "
    "base + frac*(size-base) bytes (base = size at open time for append): exactly the states a death between "
    "that open and the close can leave; power-loss reordering of closed files is out of scope",
    "results are compared after one JSON round trip of the stored results (the property says so); log messages "
    "inside the results verbatim against the originals",
    "dataset comparison: same column names and cell values (NaN = NaN), dtypes and index are not judged",
    "a name stored twice with different models: the later successful store is what the name must yield",
    "the time column of log.csv is not judged",
]
MIN_NONTRIVIAL = {"quick": 150, "thorough": 1500}
REQUIRED_MONITORS = ["crash_points_injected", "crash_points:exc", "crash_points:exit", "crash_points:torn",
                     "restart_oracle_evals", "A:by_name", "A:by_key", "B:by_name", "B:by_key", "B:log", "B:annotation",
                     "C:store_other", "C:store_sharing_dataset", "C:retrieve_after_store", "fid:by_name", "fid:by_key",
                     "fid:log_rows", "fid:results", "fid:dataset_cells", "fid:annotation", "fid:metadata",
                     "workloads_exhaustive", "conc:retrievals", "inflight_visible_complete", "inflight_absent"]

KEY_DSPOISON = "C16/dataset-index-poisoned-by-crash"
KEY_PENDING = "C16/pending-marker-blocks-committed-entry"
KEY_ANNOT_ATOMIC = "C16/annotations-rewrite-not-atomic"
KEY_META_ATOMIC = "C16/metadata-rewrite-not-atomic"
KEY_TORN_LOG = "C16/torn-log-line-corrupts-log"
KEY_LOG_HEADER = "C16/torn-log-header-never-repaired"
KEY_NA = "C16/log-message-na-coercion"
KEY_LOG_NUM = "C16/log-message-numeric-coercion"
KEY_ANNOT_NL = "C16/annotation-newline-truncation"
KEY_NAME_BLANK = "C16/annotation-lookup-name-with-blank"
KEY_NAME_COMMA = "C16/log-path-unquoted"
KEY_REBIND = "C16/name-rebind-keeps-first-key"
KEY_DATAINFO = "C16/shared-data-other-datainfo-not-stored"

FLAVOURS = ["exc", "exit", "torn"]
# one workload is shared by 5 consecutive case indices: (flavour, half of the k range); torn has few points, not split
SUBCASES = [("exc", 0), ("exc", 1), ("exit", 0), ("exit", 1), ("torn", None)]
LAYOUT = {"quick": (40, 24, 300), "thorough": (600, 300, 4500)}  # crash sub-cases (5 per workload), concurrency, fidelity
SOFT_BUDGET_S = 62.0  # enumeration stops (counted as not_enumerated) before the farm's 90 s watchdog; no verdict
BATCH_TIMEOUT = {"quick": 1800, "thorough": 8 * 3600}
REFUSALS = ("KeyError", "FileNotFoundError", "PendingTransactionError")
_TIME_RE = re.compile(rb"\d{4}-\d\d-\d\d \d\d:\d\d:\d\d(\.\d+)?")


def n_cases(tier):
    return sum(LAYOUT[tier])


def setup(tier):
    import pharmpy.modeling  # noqa
    import pharmpy.workflows  # noqa
    from pharmpy.model import Model  # noqa
    from pharmpy.workflows.results import read_results  # noqa


def run_case(rng, idx, tier):
    ncrash, nconc, _ = LAYOUT[tier]
    base = os.path.join(os.environ["VERIF_SCRATCH"], f"c{idx}")
    shutil.rmtree(base, ignore_errors=True)
    os.makedirs(base)
    try:
        if idx < ncrash:
            return crash_case(rng, idx, base)
        if idx < ncrash + nconc:
            return conc_case(rng, idx, base)
        return fidelity_case(rng, idx, base)
    finally:
        shutil.rmtree(base, ignore_errors=True)


# =============================================================================================== workload
def _quiet(*a, **k):
    return None


def open_ctx(root):
    from pharmpy.workflows import LocalDirectoryContext

    ctx = LocalDirectoryContext("ctx", root)
    ctx.broadcast_message = _quiet
    return ctx


def _as_entry(x):
    from pharmpy.model import Model
    from pharmpy.workflows import ModelEntry

    return ModelEntry.create(x) if isinstance(x, Model) else x


def _retrieve_by(ctx, name):
    if name == "input":
        return ctx.retrieve_input_model_entry()
    if name == "final":
        return ctx.retrieve_final_model_entry()
    return ctx.retrieve_model_entry(name)


def op_name(op, spec):
    """Name under which a context-level store binds its model (None for the other operations)."""
    k = op["op"]
    if k == "store":
        return spec["models"][op["m"]]["name"]
    if k == "store_input":
        return "input"
    if k == "store_final":
        return "final"
    return None


def exec_op(ctx, op, entries, models, spec):
    from pharmpy.workflows.hashing import ModelHash

    k = op["op"]
    if k == "store":
        ctx.store_model_entry(entries[op["m"]])
    elif k == "store_input":
        ctx.store_input_model_entry(entries[op["m"]])
    elif k == "store_final":
        ctx.store_final_model_entry(_as_entry(entries[op["m"]]))
    elif k == "db_store":
        ctx.model_database.store_model_entry(_as_entry(entries[op["m"]]))
    elif k == "log":
        getattr(ctx, "log_" + op["sev"])(op["msg"], model=None if op["model"] is None else models[op["model"]])
    elif k == "annot":
        ctx.store_annotation(op["name"], op["text"])
    elif k == "meta":
        ctx.store_metadata(op["meta"])
    elif k == "retrieve":
        return _retrieve_by(ctx, op_name({"op": op["how"], "m": op["m"]}, spec))
    elif k == "retrieve_key":
        return ctx.model_database.retrieve_model_entry(ModelHash(models[op["m"]]))
    else:
        raise AssertionError(k)


def run_ops(spec, entries, models, root, w):
    def say(s):
        os.write(w, (s + "\n").encode())

    ctx = None
    for i in range(len(spec["ops"]) + 1):
        crashfs.set_op(i)
        say(f"S {i}")
        try:
            if i == 0:
                ctx = open_ctx(root)
            else:
                exec_op(ctx, spec["ops"][i - 1], entries, models, spec)
        except crashfs.InjectedFault:
            say(f"E {i}")
            raise
        except Exception as e:  # the call refused / failed without an injected fault: not committed
            say(f"X {i} {type(e).__name__} {json.dumps(str(e)[:200])}")
            if i == 0:
                return
            continue
        say(f"R {i}")


def workload_child(w, spec, entries, models, root, mode, k, frac):
    os.makedirs(root, exist_ok=True)
    crashfs.arm(root, mode, k, frac, progress_fd=w)
    try:
        run_ops(spec, entries, models, root, w)
    except crashfs.InjectedFault:
        pass
    crashfs.end_of_workload()
    crashfs.disarm()
    if mode == "count":
        os.write(w, b"EV " + json.dumps(crashfs.events()).encode() + b"\n")


def parse_progress(out):
    p = {"started": [], "returned": [], "raised": {}, "injected_in": None, "fault": None, "torn": None, "events": None,
         "harness": None, "bad_point": False}
    for line in out.decode("utf-8", "replace").splitlines():
        tag, _, rest = line.partition(" ")
        if tag == "S":
            p["started"].append(int(rest))
        elif tag == "R":
            p["returned"].append(int(rest))
        elif tag == "X":
            i, _, r2 = rest.partition(" ")
            p["raised"][int(i)] = r2
        elif tag == "E":
            p["injected_in"] = int(rest)
        elif tag == "F":
            a = rest.split()
            p["fault"] = (int(a[0]), int(a[1]))
        elif tag == "T":
            p["torn"] = [int(x) for x in rest.split()]
        elif tag == "N":
            p["bad_point"] = True
        elif tag == "EV":
            p["events"] = json.loads(rest)
        elif tag == "!HARNESS":
            p["harness"] = rest
    return p


def tree_fingerprint(root):
    h = hashlib.sha1()
    n = 0
    for d, dirs, files in os.walk(root, followlinks=False):
        dirs.sort()
        rel = os.path.relpath(d, root)
        h.update(b"D" + rel.encode() + b"\0")
        for name in sorted(files + [x for x in dirs if os.path.islink(os.path.join(d, x))]):
            p = os.path.join(d, name)
            h.update(b"F" + os.path.join(rel, name).encode("utf-8", "surrogateescape") + b"\0")
            n += 1
            if os.path.islink(p):
                h.update(b"L" + os.readlink(p).encode() + b"\0")
                continue
            try:
                with open(p, "rb") as f:
                    b = f.read()
            except OSError:
                b = b"?"
            if name == "log.csv":
                b = _TIME_RE.sub(b"T", b)
            h.update(hashlib.sha1(b).digest())
    return h.hexdigest()[:16], n


# =============================================================================================== comparisons
def _nan_eq(a, b):
    if a is None or b is None:
        return a is None and b is None
    if isinstance(a, float) and isinstance(b, float) and a != a and b != b:
        return True
    return a == b


def cmp_dataset(gdf, edf):
    import numpy as np

    if gdf is None or edf is None:
        return [] if gdf is None and edf is None else [f"dataset is {'None' if gdf is None else 'present'}"]
    if [str(c) for c in gdf.columns] != [str(c) for c in edf.columns]:
        return [f"dataset columns {list(gdf.columns)} != {list(edf.columns)}"]
    if gdf.shape != edf.shape:
        return [f"dataset shape {gdf.shape} != {edf.shape}"]
    out = []
    for c in edf.columns:
        a, b = gdf[c].to_numpy(), edf[c].to_numpy()
        try:
            same = bool(np.array_equal(a.astype(float), b.astype(float), equal_nan=True))
        except (TypeError, ValueError):
            same = [str(x) for x in a] == [str(x) for x in b]
        if not same:
            bad = [i for i in range(len(a)) if not _nan_eq(_f(a[i]), _f(b[i]))][:3]
            out.append(f"dataset column {c} differs at rows {bad}: got {[repr(a[i]) for i in bad]} stored {[repr(b[i]) for i in bad]}")
    return out


def _f(x):
    try:
        return float(x)
    except (TypeError, ValueError):
        return str(x)


def _params(m):
    return [(p.name, float(p.init), float(p.lower), float(p.upper), bool(p.fix)) for p in m.parameters]


def cmp_model(got, exp):
    out = []
    try:
        eq = got == exp
    except Exception as e:  # noqa
        return [f"retrieved == stored raised {type(e).__name__}: {str(e)[:100]}"]
    if eq is not True:
        parts = []
        for attr in ("parameters", "random_variables", "statements", "dependent_variables", "execution_steps", "datainfo",
                     "observation_transformation", "value_type"):
            try:
                if getattr(got, attr) != getattr(exp, attr):
                    parts.append(attr)
            except Exception:
                parts.append(attr + "?")
        out.append("retrieved model != stored model (differs in: " + ",".join(parts) + ")")
    try:
        gp, ep = _params(got), _params(exp)
        if gp != ep:
            out.append(f"parameters differ: {gp} vs stored {ep}")
    except Exception as e:  # noqa
        out.append(f"parameters not comparable: {type(e).__name__}")
    return out


def canon_results(res):
    return json.dumps(json.loads(res.to_json()), sort_keys=True)


def cmp_results(got_me, exp_entry, hits):
    from pharmpy.model import Model
    from pharmpy.workflows.results import read_results

    exp_res = None if isinstance(exp_entry, Model) else exp_entry.modelfit_results
    got_res = got_me.modelfit_results
    if exp_res is None:
        return [] if got_res is None else ["modelfit_results present although none were stored"]
    if got_res is None:
        return ["modelfit_results missing"]
    out = []
    hits["fid:results"] += 1
    try:
        e = canon_results(read_results(exp_res.to_json()))
        g = canon_results(got_res)
        if e != g:
            ed, gd = json.loads(e), json.loads(g)
            bad = [k for k in ed if json.dumps(ed.get(k), sort_keys=True) != json.dumps(gd.get(k), sort_keys=True)]
            out.append(f"modelfit_results differ from the JSON round trip of the stored results in {bad[:6]}")
    except Exception as ex:  # noqa
        out.append(f"results not comparable: {type(ex).__name__}: {str(ex)[:100]}")
    want = [(x.category, x.message) for x in (exp_res.log or ())]
    have = [(x.category, x.message) for x in (got_res.log or ())]
    if want != have:
        out.append(f"results log messages {have!r:.300} != stored {want!r:.300}")
    melog = [(x.category, x.message) for x in (got_me.log or ())]
    if melog != have:
        out.append("ModelEntry.log differs from modelfit_results.log")
    return out


def cmp_entry(got_me, exp_entry, exp_model, hits, name=None, descs=None):
    out = cmp_model(got_me.model, exp_model)
    hits["fid:dataset_cells"] += 1
    try:
        out += cmp_dataset(got_me.model.dataset, exp_model.dataset)
    except Exception as e:  # noqa
        out.append(f"dataset of the retrieved model cannot be read: {type(e).__name__}: {str(e)[:120]}")
    out += cmp_results(got_me, exp_entry, hits)
    if name is not None and got_me.model.name != name:
        out.append(f"name {got_me.model.name!r} != {name!r}")
    if descs is not None and got_me.model.description not in descs:
        out.append(f"description {got_me.model.description!r:.120} not in the stored {sorted(descs)!r:.240}")
    return out


# =============================================================================================== the oracle
class Ref:
    """What the returned calls of a workload established (plain replay; nothing from pharmpy)."""

    def __init__(self, spec, committed, inflight):
        self.spec = spec
        ops = spec["ops"]
        self.committed = [i for i in sorted(committed) if i >= 1]
        self.ctx_committed = 0 in committed
        self.inflight = inflight
        self.name_c = {}  # name -> [model index] of committed context stores, call order
        self.name_f = {}  # name -> model index of the in-flight context store
        self.desc_c = {}  # name -> last committed annotation text
        self.desc_f = {}
        self.key_c = set()  # model indices with a committed store of any kind
        self.key_f = set()
        self.log_c = []
        self.log_f = None
        self.meta_c = None
        self.meta_f = None
        self.has_meta_c = False
        for i in sorted(set(self.committed) | ({inflight} if inflight else set())):
            op = ops[i - 1]
            fl = i == inflight and i not in committed
            k = op["op"]
            nm = op_name(op, spec)
            if nm is not None:
                d = spec["models"][op["m"]]["desc"]
                if fl:
                    self.name_f[nm] = op["m"]
                    self.desc_f[nm] = d
                    self.key_f.add(op["m"])
                else:
                    self.name_c.setdefault(nm, []).append(op["m"])
                    self.desc_c[nm] = d
                    self.key_c.add(op["m"])
            elif k == "db_store":
                (self.key_f if fl else self.key_c).add(op["m"])
            elif k == "annot":
                if fl:
                    self.desc_f[op["name"]] = op["text"]
                else:
                    self.desc_c[op["name"]] = op["text"]
            elif k == "log":
                row = ("ctx" if op["model"] is None else "ctx/@" + spec["models"][op["model"]]["name"], op["sev"], op["msg"])
                if fl:
                    self.log_f = row
                else:
                    self.log_c.append(row)
            elif k == "meta":
                if fl:
                    self.meta_f = op["meta"]
                else:
                    self.meta_c, self.has_meta_c = op["meta"], True


def _exc(e):
    return type(e).__name__


def judge_state(root, spec, entries, models, committed, inflight, post, fix=None, skip_post=()):
    """Runs in a fresh process.  -> {"viol": [...], "hits": {...}, "info": {...}}"""
    from pharmpy.workflows.hashing import ModelHash

    ref = Ref(spec, committed, inflight)
    hits = Counter()
    viol = []
    info = {}

    def v(cls, what, msg, **kw):
        viol.append(dict(cls=cls, what=what, msg=msg, **kw))

    nm_models = len(models)
    keys = [str(ModelHash(m)) for m in models]
    dhash = [ModelHash(m).dataset_hash for m in models]
    fl_models = set(ref.key_f)
    fl_keys = {keys[j] for j in fl_models}
    # -- state of the dataset index for the in-flight store (classification evidence only)
    dbpath = os.path.join(root, "ctx", ".modeldb")
    window = {}
    for j in fl_models:
        hd = os.path.join(dbpath, ".datasets", ".hash", dhash[j])
        if os.path.isdir(hd):
            fs = sorted(os.listdir(hd))
            st = "complete"
            if not fs:
                st = "hash dir empty"
            else:
                di = os.path.join(dbpath, ".datasets", os.path.splitext(fs[0])[0] + ".datainfo")
                if not os.path.isfile(di):
                    st = "datainfo missing"
                else:
                    try:
                        with open(di) as f:
                            json.load(f)
                    except ValueError:
                        st = "datainfo torn"
            if st != "complete":
                window[dhash[j]] = st
    info["ds_window"] = window
    pend = []
    for j in range(nm_models):
        if os.path.exists(os.path.join(dbpath, keys[j], ".pharmpy", "PENDING")):
            pend.append(j)
    info["pending"] = pend
    if fix == "remove_incomplete_hash_dir":
        for h in window:
            shutil.rmtree(os.path.join(dbpath, ".datasets", ".hash", h), ignore_errors=True)
    elif fix == "remove_pending_marker":
        for j in pend:
            os.remove(os.path.join(dbpath, keys[j], ".pharmpy", "PENDING"))

    try:
        ctx = open_ctx(root)
    except Exception as e:  # noqa
        if ref.ctx_committed:
            v("B", "ctx", f"the context cannot be reopened: {_exc(e)}: {str(e)[:150]}")
        else:
            hits["not_judged:context-creation-interrupted-reopen-failed:" + _exc(e)] += 1
        return {"viol": viol, "hits": dict(hits), "info": info}
    db = ctx.model_database

    # -- 1. by name
    name_ok_models = set()
    all_names = sorted(set(ref.name_c) | set(ref.name_f) | {m["name"] for m in spec["models"]} | {"input", "final"})
    for n in all_names:
        cands_c = ref.name_c.get(n, [])
        cand_f = ref.name_f.get(n)
        cls = "B" if cands_c else "A"
        hits[f"{cls}:by_name"] += 1
        hits["fid:by_name"] += 1
        try:
            me = _retrieve_by(ctx, n)
        except Exception as e:  # noqa
            if cands_c:
                j = cands_c[-1]
                v("B", "name", f"entry stored under name {n!r} by a returned call is not retrievable: {_exc(e)}: {str(e)[:120]}",
                  exc=_exc(e), model=j, name=n, same_key_inflight=keys[j] in fl_keys)
            else:
                hits["refusal:" + _exc(e) if _exc(e) in REFUSALS else "refusal_other:" + _exc(e)] += 1
                if cand_f is not None:
                    hits["inflight_absent"] += 1
            continue
        if not cands_c and cand_f is None:
            v("A", "name", f"an entry is visible under name {n!r} that no store call used", name=n)
            continue
        # which stored entry is it?  later committed stores first, then the in-flight one
        order = list(reversed(cands_c)) + ([cand_f] if cand_f is not None else [])
        allowed = set()
        if n in ref.desc_c:
            allowed.add(ref.desc_c[n])
        if n in ref.desc_f:
            allowed.add(ref.desc_f[n])
        best = None
        for j in order:
            d = cmp_entry(me, entries[j], models[j], hits, name=n, descs=allowed)
            if best is None or len(d) < len(best[1]):
                best = (j, d)
            if not d:
                break
        j, d = best
        want = cands_c[-1] if cands_c else cand_f
        if d:
            v(cls, "name", f"entry retrieved under name {n!r} is not what was stored: " + "; ".join(d)[:600], name=n, model=j,
              diffs=d, first_binding=(len(cands_c) > 1 and not cmp_model(me.model, models[cands_c[0]])))
        elif cands_c and j != want and keys[j] != keys[want] and j in cands_c:
            v("B", "name", f"name {n!r} yields the entry of an earlier store, not of the last returned store", name=n, model=j,
              first_binding=True)
        else:
            name_ok_models.add(j)
            if not cands_c:
                hits["inflight_visible_complete"] += 1

    # -- 2. by key
    groups = {}
    for j, k in enumerate(keys):
        groups.setdefault(k, []).append(j)
    for k, js in sorted(groups.items()):
        com = [j for j in js if j in ref.key_c]
        fl = [j for j in js if j in ref.key_f]
        cls = "B" if com else "A"
        if any(j in name_ok_models for j in js):
            hits["by_key_implied_by_name"] += 1
            continue
        hits[f"{cls}:by_key"] += 1
        hits["fid:by_key"] += 1
        try:
            me = db.retrieve_model_entry(ModelHash(models[js[0]]))
        except Exception as e:  # noqa
            if com:
                v("B", "key", f"entry stored by a returned call is not retrievable by key: {_exc(e)}: {str(e)[:120]}",
                  exc=_exc(e), model=com[0], same_key_inflight=bool(fl))
            else:
                hits["refusal:" + _exc(e) if _exc(e) in REFUSALS else "refusal_other:" + _exc(e)] += 1
                if fl:
                    hits["inflight_absent"] += 1
            continue
        if not com and not fl:
            v("A", "key", "an entry is visible under a key that no store call used", model=js[0])
            continue
        best = None
        for j in com + fl:
            d = cmp_entry(me, entries[j], models[j], hits)
            if best is None or len(d) < len(best[1]):
                best = (j, d)
        if best[1]:
            v(cls, "key", "entry retrieved by key is not what was stored: " + "; ".join(best[1])[:600], model=best[0], diffs=best[1])
        elif not com:
            hits["inflight_visible_complete"] += 1
    hits["not_judged:name-and-description-by-key"] += 1

    # -- 3. log
    def read_log(expected, optional, what, cls):
        hits[f"{cls}:log" if cls != "F" else "fid:postlog"] += 1
        try:
            df = ctx.retrieve_log()
            rows = [(df["path"][i], df["severity"][i], df["message"][i]) for i in range(len(df))]
        except Exception as e:  # noqa
            v(cls, what, f"retrieve_log failed: {_exc(e)}: {str(e)[:150]}", exc=_exc(e), nrows=len(expected),
              comma_path=any("," in x[0] or '"' in x[0] for x in expected))
            return None
        alts = [expected] + ([expected + [optional]] if optional is not None else [])
        for a in alts:
            if len(a) == len(rows) and all(_row_eq(r, x) for r, x in zip(rows, a)):
                hits["fid:log_rows"] += len(rows)
                return rows
        a = alts[-1] if len(rows) > len(expected) else alts[0]
        bad = [i for i in range(min(len(a), len(rows))) if not _row_eq(rows[i], a[i])]
        na_only = len(a) == len(rows) and bad and all(
            rows[i][:2] == a[i][:2] and G.is_na_string(a[i][2]) and isinstance(rows[i][2], float) and rows[i][2] != rows[i][2]
            for i in bad)
        num_only = len(a) == len(rows) and bad and all(G.is_numeric_like(x[2]) or G.is_na_string(x[2]) for x in a) and all(
            rows[i][:2] == a[i][:2] and not isinstance(rows[i][2], str) for i in bad) and not na_only
        v(cls, what, f"retrieve_log returned {len(rows)} rows, stored {len(expected)}{'(+1 in flight)' if optional else ''}; "
          f"first differing rows {bad[:3]}: got {[_short(rows[i]) for i in bad[:3]]} stored {[_short(a[i]) for i in bad[:3]]}",
          na_only=bool(na_only), num_only=bool(num_only), nrows=len(rows), nexp=len(expected),
          comma_path=any("," in x[0] or '"' in x[0] for x in a))
        return None

    if ref.ctx_committed or ref.log_c:
        read_log(ref.log_c, ref.log_f, "log", "B")
    else:
        hits["not_judged:log-of-interrupted-context-creation"] += 1

    # -- 4. annotations
    for n in sorted(set(ref.desc_c) | set(ref.desc_f)):
        allowed = {x for x in (ref.desc_c.get(n), ref.desc_f.get(n)) if x is not None}
        cls = "B" if n in ref.desc_c else "A"
        hits[f"{cls}:annotation"] += 1
        hits["fid:annotation"] += 1
        try:
            got = ctx.retrieve_annotation(n)
        except Exception as e:  # noqa
            if n in ref.desc_c:
                v("B", "annot", f"annotation stored for {n!r} by a returned call is not retrievable: {_exc(e)}", name=n, exc=_exc(e),
                  text=ref.desc_c[n])
            continue
        if got not in allowed:
            v(cls, "annot", f"annotation of {n!r} is {got!r:.150}, stored {sorted(allowed)!r:.300}", name=n, got=got,
              text=ref.desc_c.get(n, ref.desc_f.get(n)))

    # -- 5. metadata
    if ref.has_meta_c or ref.meta_f is not None:
        cls = "B" if ref.has_meta_c else "A"
        hits[f"{cls}:metadata"] += 1
        hits["fid:metadata"] += 1
        allowed = [json.dumps(x, sort_keys=True) for x in ([ref.meta_c] if ref.has_meta_c else []) + ([ref.meta_f] if ref.meta_f is not None else [])]
        try:
            got = json.dumps(ctx.retrieve_metadata(), sort_keys=True)
            if got not in allowed:
                v(cls, "meta", f"metadata {got:.200} is not what was stored {allowed!r:.300}")
        except Exception as e:  # noqa
            if ref.has_meta_c:
                v("B", "meta", f"metadata stored by a returned call is not retrievable: {_exc(e)}: {str(e)[:100]}", exc=_exc(e))

    if not post:
        return {"viol": viol, "hits": dict(hits), "info": info}

    # -- 6. (C) the other models can still be stored and are then retrievable.  The order of these stores is part of
    # the history (a store with another dataset of the same layout before the one sharing the interrupted dataset, or
    # after it): it is drawn from the workload itself, so that a replay makes the same choice
    import hashlib as _hl
    import random as _random

    order = list(range(nm_models))
    _random.Random(_hl.sha1(json.dumps(spec.get("ops", []), sort_keys=True, default=str).encode()).hexdigest()).shuffle(order)
    hits["C:post_store_order:" + ("ascending" if order == sorted(order) else "other")] += 1
    for j in order:
        if keys[j] in fl_keys:
            # (D) a retry of the interrupted store may be refused (a pending transaction is a documented refusal), but
            # when it returns the entry must be complete: a torn entry must never become visible through a retry
            if j in skip_post:
                continue
            hits["D:retry_interrupted_store"] += 1
            try:
                ctx.store_model_entry(entries[j])
            except Exception:  # noqa
                hits["D:retry_refused"] += 1
                continue
            hits["D:retry_returned"] += 1
            try:
                me = ctx.retrieve_model_entry(spec["models"][j]["name"])
                d = cmp_entry(me, entries[j], models[j], hits)
                d = [x for x in d if not x.startswith("modelfit_results")] if any(i in ref.key_c for i in groups[keys[j]]) else d
                if d:
                    v("A", "retry", f"the retried store of the interrupted model {j} returned, but the entry is not faithful: "
                      + "; ".join(d)[:400], model=j, diffs=d)
            except KeyError:
                hits["D:retry_entry_not_by_name"] += 1
            except Exception as e:  # noqa
                v("A", "retry", f"the retried store of the interrupted model {j} returned, but the entry cannot be retrieved: "
                  f"{_exc(e)}: {str(e)[:150]}", model=j, exc=_exc(e))
            continue
        if j in skip_post:
            hits["not_judged:model-not-storable-without-fault"] += 1
            continue
        n = spec["models"][j]["name"]
        if ref.name_c.get(n, [j])[-1] != j or ref.name_f.get(n, j) != j:
            hits["not_judged:post-store-name-taken"] += 1
            continue
        shares = any(dhash[j] == dhash[i] for i in fl_models)
        hits["C:store_other"] += 1
        if shares:
            hits["C:store_sharing_dataset"] += 1
        try:
            ctx.store_model_entry(entries[j])
        except Exception as e:  # noqa
            v("C", "poststore", f"storing model {j} after the restart fails: {_exc(e)}: {str(e)[:150]}", model=j, exc=_exc(e),
              shares_dataset=shares, ds_state=window.get(dhash[j]), store_failed=True)
            continue
        hits["C:retrieve_after_store"] += 1
        try:
            me = ctx.retrieve_model_entry(n)
            exp_entry = entries[j]
            prior = [i for i in groups[keys[j]] if i in ref.key_c]
            d = cmp_entry(me, exp_entry, models[j], hits, name=n, descs={spec["models"][j]["desc"]})
            if d and prior:  # the key was committed before with another entry object (same model): results of that store stay
                d2 = [cmp_entry(me, entries[i], models[i], hits) for i in prior]
                if any(not x for x in d2):
                    d = [x for x in d if not x.startswith("modelfit_results")]
            if d:
                v("C", "poststore", f"model {j} stored after the restart is not retrieved faithfully: " + "; ".join(d)[:500],
                  model=j, diffs=d, shares_dataset=shares)
        except Exception as e:  # noqa
            v("C", "poststore", f"model {j} stored after the restart is not retrievable: {_exc(e)}: {str(e)[:150]}", model=j,
              exc=_exc(e), shares_dataset=shares, ds_state=window.get(dhash[j]))
    # -- 7. a message logged after the restart is retrievable verbatim (first sentence of the property)
    if ref.ctx_committed or inflight == 0 or inflight is None:
        msg = "after restart, \"quoted\" and, comma"
        try:
            ctx.log_warning(msg)
            okc = True
        except Exception as e:  # noqa
            okc = False
            v("C", "postlog", f"log_warning after the restart fails: {_exc(e)}: {str(e)[:100]}", exc=_exc(e))
        if okc:
            base = ref.log_c
            got = read_log(base + [("ctx", "warning", msg)], None, "postlog", "F")
            if got is None and ref.log_f is not None:
                viol.pop()
                read_log(base + [ref.log_f, ("ctx", "warning", msg)], None, "postlog", "F")
    return {"viol": viol, "hits": dict(hits), "info": info}


def _row_eq(row, exp):
    return all(isinstance(a, str) and a == b for a, b in zip(row, exp))


def _short(row):
    return tuple(repr(x)[:60] for x in row)


def judge_in_child(root, spec, entries, models, committed, inflight, post, fix=None, timeout=60.0, skip_post=()):
    def child(w):
        res = judge_state(root, spec, entries, models, committed, inflight, post, fix, skip_post)
        os.write(w, b"J " + json.dumps(res, default=repr).encode() + b"\n")

    status, out = crashfs.run_forked(child, timeout)
    for line in out.decode("utf-8", "replace").splitlines():
        if line.startswith("J "):
            return json.loads(line[2:]), status
        if line.startswith("!HARNESS"):
            return {"harness": line[9:]}, status
    return None, status


# =============================================================================================== classification
def _only_annotation(vd):
    """The violation is about the annotation / description of an entry and about nothing else."""
    if vd["what"] == "annot":
        return True
    if vd.get("diffs"):
        return all(d.startswith("description ") for d in vd["diffs"])
    if vd.get("exc") in ("UnicodeDecodeError", "IndexError"):
        # the cut went through a multi-byte character of the annotations file / left a line without the blank
        # (these exception types are only accepted as annotation evidence at a crash point that tore that file)
        return True
    return vd.get("exc") == "KeyError" and "No annotation for" in vd["msg"]


def classify(vd, point):
    """vd: violation dict of judge_state; point: crash-point description (None for fault-free runs).
    -> (key or None, needs_delta or None)"""
    what, cls = vd["what"], vd["cls"]
    if point is not None:
        torn_rel = point.get("torn_rel")
        if point["flavour"] == "torn" and torn_rel == "ctx/annotations" and what in ("annot", "name", "poststore") and (
                _only_annotation(vd) and (not vd.get("store_failed") or vd.get("exc") in ("UnicodeDecodeError", "IndexError"))):
            # the annotations file is rewritten in place: a death inside that write loses the earlier lines, shows a
            # partial line as an annotation, and a line without terminator swallows the next annotation appended
            return KEY_ANNOT_ATOMIC, None
        if what == "meta" and cls == "B" and point["flavour"] == "torn" and torn_rel == "ctx/metadata.json":
            return KEY_META_ATOMIC, None
        if what in ("log", "postlog") and point["flavour"] == "torn" and torn_rel == "ctx/log.csv":
            if point["inflight"] == 0:
                return KEY_LOG_HEADER, None
            if point.get("torn_append"):  # the bytes of the earlier lines are intact, only the appended line is cut
                return KEY_TORN_LOG, None
        if what == "poststore" and vd.get("shares_dataset") and vd.get("ds_state"):
            return None, ("remove_incomplete_hash_dir", KEY_DSPOISON)
        if what in ("name", "key") and cls == "B" and vd.get("exc") == "PendingTransactionError" and vd.get("same_key_inflight"):
            return None, ("remove_pending_marker", KEY_PENDING)
    if what in ("log", "postlog") and vd.get("na_only"):
        return KEY_NA, None
    if what in ("log", "postlog") and vd.get("num_only"):
        return KEY_LOG_NUM, None
    return None, None


def classify_fidelity(vd, spec):
    """Strata of the fidelity generator: attribute only when the evidence in the violation matches the mechanism."""
    st = spec.get("stratum")
    what = vd["what"]
    if what in ("log", "postlog") and vd.get("na_only"):
        return KEY_NA
    if what in ("log", "postlog") and vd.get("num_only"):
        return KEY_LOG_NUM
    if st == "annot_nl" and what in ("annot", "name") and _only_annotation(vd) and vd.get("exc") in (None, "KeyError"):
        t = vd.get("text")
        if what == "annot" and t is not None and ("\n" in t or "\r" in t):
            return KEY_ANNOT_NL
        if what == "name" and any("\n" in o.get("text", "") or "\r" in o.get("text", "") for o in spec["ops"] if o["op"] == "annot" and o["name"] == vd.get("name")):
            return KEY_ANNOT_NL
    if st == "name_blank" and what in ("annot", "name") and _only_annotation(vd) and vd.get("exc") in (None, "KeyError"):
        blank = [m["name"] for m in spec["models"] if " " in m["name"]]
        n = vd.get("name")
        if n is not None and (" " in n or any(b.split(" ", 1)[0] == n for b in blank)):
            return KEY_NAME_BLANK
    if st == "name_comma" and what in ("log", "postlog") and vd.get("comma_path"):
        return KEY_NAME_COMMA
    if st == "rebind" and what == "name" and vd.get("first_binding"):
        return KEY_REBIND
    if st == "datainfo" and what in ("name", "key", "poststore"):
        j = vd.get("model")
        if j is not None and spec["models"][j].get("datainfo_variant") and spec["models"][j].get("delta_alone_roundtrips") and any(
                "datainfo" in x or "dataset" in x for x in vd.get("diffs", [])):
            return KEY_DATAINFO
    return None


def _rel_event(ev, keys, dhashes):
    p = ev["path"]
    for i, k in enumerate(keys):
        p = p.replace(k, f"<key{i}>")
    for i, h in enumerate(dhashes):
        p = p.replace(h, f"<datahash{i}>")
    return f"{ev['ev']} {p}"


# =============================================================================================== crash case
def _workload_rng(rng, idx):
    """The 5 sub-cases of one workload must draw the same workload, but the farm hands every case its own generator
    seeded from (property, seed, idx) and not the seed.  The seed is recovered by comparing generator states (env
    VERIF_SEED first, then 0..999); with it the group's generator is a function of (seed, first index of the group),
    so a replay of a single sub-case reproduces.  If the seed cannot be recovered the sub-case falls back to a
    workload of its own (still a valid case: its share of the crash points of that workload)."""
    group = idx // len(SUBCASES)
    st = rng.getstate()
    cands = []
    env = os.environ.get("VERIF_SEED", "")
    if env.lstrip("-").isdigit():
        cands.append(int(env))
    import sys

    for i, a in enumerate(sys.argv[:-1]):
        if a == "--seed" and sys.argv[i + 1].lstrip("-").isdigit():
            cands.append(int(sys.argv[i + 1]))
    cands.extend(range(0, 1000))
    for sd in cands:
        if random.Random(f"{PROP}:{sd}:{idx}").getstate() == st:
            return random.Random(f"{PROP}:{sd}:workload:{group}"), True
    return rng, False


def crash_case(rng, idx, base):
    from pharmpy.workflows.hashing import ModelHash

    t_begin = time.monotonic()
    c = Case()
    flavour, parity = SUBCASES[idx % len(SUBCASES)]
    wrng, shared = _workload_rng(rng, idx)
    spec = G.gen_crash_workload(wrng)
    fracs_rng = random.Random(wrng.random())
    if not shared:
        c.hit("not_judged:seed-not-recovered-workload-not-shared")
    entries, models = G.build(spec, os.path.join(base, "src"))
    keys = [str(ModelHash(m)) for m in models]
    dhashes = sorted({ModelHash(m).dataset_hash for m in models})
    nops = len(spec["ops"])
    c.sample = {"kind": "crash", "flavour": flavour, "k_half": parity, "workload_group": idx // len(SUBCASES),
                "stratum": spec["stratum"], "ops": spec["ops"],
                "models": [{k: v for k, v in m.items() if k not in ("results",)} | {"has_results": "results" in m} for m in spec["models"]],
                "datasets": spec["datasets"]}
    c.fp = fp_of("crash", flavour, parity, spec["ops"], spec["models"], spec["datasets"])

    # -- fault-free run: numbers the events; its final state is judged as a fidelity workload
    root0 = os.path.join(base, "count")
    status, out = crashfs.run_forked(lambda w: workload_child(w, spec, entries, models, root0, "count", 0, 0.0))
    p0 = parse_progress(out)
    if status != 0 or p0["events"] is None or p0["harness"]:
        c.skipped = f"counting-run-failed:{status}"
        c.sample["harness"] = p0["harness"]
        return c
    events = p0["events"]
    N = len(events)
    c.hit("workloads")
    c.hit("events_counted", N)
    for i, why in p0["raised"].items():
        c.hit("op_refused_without_fault:" + why.split(" ")[0])
    all_ops = set(p0["returned"])
    res, st = judge_in_child(root0, spec, entries, models, all_ops, None, post=True)
    # a store that fails without any fault is the writer's refusal of that model (e.g. a title NONMEM code cannot
    # carry), not an effect of a crash: such a model is left out of (C)
    unstorable = set()
    if res is not None and "viol" in res:
        for vd in [x for x in res["viol"] if x.get("store_failed")]:
            res["viol"].remove(vd)
            unstorable.add(vd["model"])
            c.hit("not_judged:store-fails-without-fault:" + vd["exc"])
    _merge(c, res, st, spec, None, "fault-free run")
    shutil.rmtree(root0, ignore_errors=True)

    if flavour == "torn":
        points = [e["n"] + 1 for e in events if e["tear"]]
    else:
        allk = list(range(1, N + 1))  # contiguous halves: neighbouring no-op events keep sharing one oracle evaluation
        points = allk[:N // 2] if parity == 0 else allk[N // 2:]
    tear_fracs = {k: (0.0 if fracs_rng.random() < 0.35 else fracs_rng.random()) for k in range(1, N + 2)}
    seen = {}
    done = 0
    for k in points:
        if time.monotonic() - t_begin > SOFT_BUDGET_S:
            c.hit("not_enumerated:soft-time-budget", len(points) - done)
            break
        frac = tear_fracs[k]
        root = os.path.join(base, f"k{k}")
        status, out = crashfs.run_forked(lambda w: workload_child(w, spec, entries, models, root, flavour, k, frac))
        p = parse_progress(out)
        done += 1
        if p["harness"] or status == "timeout" or p["fault"] is None or p["bad_point"]:
            c.hit(f"not_judged:crash-child:{'timeout' if status == 'timeout' else 'harness' if p['harness'] else 'fault-not-reached'}")
            if p["harness"]:
                c.sample.setdefault("harness_errors", []).append(p["harness"][:300])
            shutil.rmtree(root, ignore_errors=True)
            continue
        c.hit("crash_points_injected")
        c.hit("crash_points:" + flavour)
        fault_n, fault_op = p["fault"]
        if flavour == "exc" and p["injected_in"] is None:
            c.hit("injected_exception_swallowed_by_the_call")
        committed = set(i for i in p["returned"] if flavour != "torn" or i < fault_op)
        inflight = fault_op if fault_op not in committed else None
        ev = events[k - 1] if k <= N else {"ev": "end-of-workload", "path": ""}
        point = {"flavour": flavour, "k": k, "N": N, "before_event": _rel_event(ev, keys, dhashes), "inflight": inflight,
                 "inflight_op": (spec["ops"][inflight - 1]["op"] if inflight else "open-context" if inflight == 0 else None)}
        if flavour == "torn":
            tev = events[k - 2]
            point["torn_rel"] = tev["path"]
            point["torn_append"] = bool((tev.get("flags") or 0) & os.O_APPEND) and not ((tev.get("flags") or 0) & os.O_TRUNC)
            point["torn_file"] = _rel_event(tev, keys, dhashes)
            point["cut"] = p["torn"]
        fp, nfiles = tree_fingerprint(root)
        sk = (fp, tuple(sorted(committed)), inflight)
        c.states.append(fp_of(sk))
        if sk in seen:
            c.hit("crash_points_same_state_as_evaluated_point")
            shutil.rmtree(root, ignore_errors=True)
            continue
        seen[sk] = k
        res, st = judge_in_child(root, spec, entries, models, committed, inflight, post=True, skip_post=unstorable)
        c.hit("restart_oracle_evals")
        new = _merge(c, res, st, spec, point, f"{flavour} before event {k}/{N}")
        # delta checks: re-create the crash state, remove the suspicious construct, judge again
        for vd, (fix, key) in new:
            root2 = root + "d"
            shutil.rmtree(root2, ignore_errors=True)
            crashfs.run_forked(lambda w: workload_child(w, spec, entries, models, root2, flavour, k, frac))
            res2, st2 = judge_in_child(root2, spec, entries, models, committed, inflight, post=True, fix=fix, skip_post=unstorable)
            shutil.rmtree(root2, ignore_errors=True)
            c.hit("delta_checks")
            # the violation is gone if nothing of the same kind AND cause (exception type) remains; what may appear
            # instead behind a removed marker (e.g. a results.json cut by the same interrupted re-store) is a state no
            # reader can observe and is not reported
            gone = res2 is not None and "viol" in res2 and not any(
                x["what"] == vd["what"] and x.get("model") == vd.get("model") and x["cls"] == vd["cls"]
                and x.get("exc") == vd.get("exc") for x in res2["viol"])
            detail = dict(point=point, violation=vd, delta=fix, delta_removed_violation=gone)
            c.violate(key if gone else None, f"({vd['cls']}) {vd['msg']} [{point['flavour']} before {point['before_event']}, "
                      f"in-flight {point['inflight_op']}; delta '{fix}' {'removes' if gone else 'does not remove'} it]", detail)
        shutil.rmtree(root, ignore_errors=True)
    else:
        c.hit("workloads_exhaustive")
        c.nontrivial = len(points) >= (4 if flavour == "torn" else 10) and len(models) >= 2
    c.hit("distinct_crash_states", len(seen))
    c.sample["N"] = N
    c.sample["events"] = [_rel_event(e, keys, dhashes) + f" [op {e['op']}]" for e in events][:200]
    return c


def _merge(c, res, status, spec, point, where):
    """Counters and violations of one judge run into the case.  Returns the violations that need a delta check."""
    if res is None or "harness" in (res or {}):
        c.hit(f"not_judged:oracle-child:{'timeout' if status == 'timeout' else 'harness-error'}")
        if res:
            c.sample.setdefault("harness_errors", []).append(res["harness"][:400])
        return []
    for k, n in res["hits"].items():
        c.hit(k, n)
    pending = []
    for vd in res["viol"]:
        key, delta = classify(vd, point)
        if key is None and delta is None and point is None:
            key = classify_fidelity(vd, spec)
        if delta is not None:
            pending.append((vd, delta))
            continue
        loc = "" if point is None else f" [{point['flavour']} before {point['before_event']}, in-flight {point['inflight_op']}" + (
            f", torn {point['torn_file']} cut {point['cut']}" if point.get("torn_file") else "") + "]"
        c.violate(key, f"({vd['cls']}) {vd['msg']}{loc}", dict(point=point, violation=vd, where=where, ds=res["info"]))
    return pending


# =============================================================================================== fidelity case
FID_STRATA = ["A"] * 51 + ["numeric_log"] * 7 + ["na"] * 7 + ["annot_nl"] * 7 + ["name_blank"] * 7 + ["name_comma"] * 7 + ["rebind"] * 7 + ["datainfo"] * 7


def gen_fidelity_workload(rng, idx):
    from vp.gen import nmtran

    stratum = FID_STRATA[idx % 100]
    nmodels = rng.choice([1, 2, 2, 3])
    if stratum in ("rebind", "datainfo"):
        nmodels = max(nmodels, 2)
    datasets = [G.gen_dataset(rng, wgt=True if stratum == "datainfo" else None)]
    names = rng.sample(G.NAMES_PLAIN, nmodels)
    if stratum == "name_blank":
        names[0] = rng.choice(G.NAMES_SPACE)
        first = names[0].strip().split(" ")[0] or "x"
        if nmodels > 1 and rng.random() < 0.6 and first not in names:
            names[1] = first  # the first word of the other name
    if stratum == "name_comma":
        names[0] = rng.choice(G.NAMES_COMMA)
    models = []
    for j in range(nmodels):
        own = j >= 1 and rng.random() < 0.5
        if own:
            datasets.append(G.gen_dataset(rng))
        ms = G.gen_model_spec(rng, len(datasets) - 1 if own else 0, names[j], rng.choice(G.DESCS))
        if rng.random() < 0.5 and stratum != "datainfo":
            try:
                g = nmtran.gen_model(rng, simple=rng.random() < 0.7)
                ms["gen_text"] = g["text"]
                ms["gen_meta"] = g["meta"]
                datasets.append({"cols": g["cols"], "rows": [[r[c] for c in g["cols"]] for r in g["rows"]]})
                ms["ds"] = len(datasets) - 1
            except Exception:
                pass
        r = rng.random()
        if r < 0.5:
            ms["results"] = G.gen_results_spec(rng)
        elif r < 0.7:
            ms["as_entry"] = True
        models.append(ms)
    for j in range(1, nmodels):
        while any(models[j].get("gen_text") is None and models[i].get("gen_text") is None and models[j]["tmpl"] == models[i]["tmpl"]
                  and models[j]["thetas"] == models[i]["thetas"] for i in range(j)):
            models[j]["thetas"][0]["init"] = round(models[j]["thetas"][0]["init"] + 0.125, 4)
    if stratum == "datainfo":
        models[1]["ds"] = models[0]["ds"]
        models[1]["datainfo_variant"] = rng.choice(["wgt_type", "dv_unit", "wgt_unit"])
    ops = []
    kinds = ["store", "store", "store_input", "store_final", "db_store"]
    used = set()
    for j in range(nmodels):
        k = rng.choice(kinds)
        if k in used and k in ("store_input", "store_final"):
            k = "store"
        used.add(k)
        ops.append({"op": k, "m": j})
    if stratum == "rebind":
        a, b = 0, 1
        models[b]["name"] = models[a]["name"]
        ops = [o for o in ops if o["m"] not in (a, b)] + [{"op": "store", "m": a}, {"op": "store", "m": b}]
    nlog = rng.randint(6, 20)
    if stratum == "numeric_log":
        extra = [G.gen_log_op(rng, nmodels, numeric=True) for _ in range(rng.randint(1, 4))]
    else:  # pandas infers a column type only when every message fits it: one ordinary message keeps the others strings
        extra = [G.gen_log_op(rng, nmodels, numeric=False)] + [G.gen_log_op(rng, nmodels) for _ in range(nlog - 1)]
    if stratum == "na":
        extra[rng.randrange(len(extra))] = G.gen_log_op(rng, nmodels, stratum_na=True)
    if stratum != "name_comma":
        for o in extra:  # a model name inside the log path is only hostile in its own stratum
            if o["model"] is not None and ("," in models[o["model"]]["name"] or '"' in models[o["model"]]["name"]):
                o["model"] = None
    else:
        extra[0]["model"] = 0
    ctx_stored = [(o["m"], op_name(o, {"models": models})) for o in ops if o["op"] != "db_store"]
    for _ in range(rng.randint(0, 3)):
        if ctx_stored:
            j, nm = rng.choice(ctx_stored)
            text = G.hostile(rng, newlines=False, long=rng.random() < 0.3, max_long=5000)
            extra.append({"op": "annot", "name": nm, "text": text, "_after": j})
    if stratum == "annot_nl" and ctx_stored:
        j, nm = rng.choice(ctx_stored)
        extra.append({"op": "annot", "name": nm, "text": rng.choice(["line1\nline2", "x\ry", "a\r\nb", "first\n" + names[0] + " second", "\nlead"]),
                      "_after": j})
    elif stratum == "annot_nl":
        stratum = "A"
    for _ in range(rng.choice([0, 1, 1, 2])):
        extra.append({"op": "meta", "meta": G.gen_meta(rng)})
    for _ in range(rng.choice([0, 1, 2])):
        o = rng.choice(ops)
        extra.append({"op": "retrieve_key", "m": o["m"], "_after": o["m"]} if o["op"] == "db_store" else
                     {"op": "retrieve", "m": o["m"], "how": o["op"], "_after": o["m"]})
    rng.shuffle(extra)
    # interleave: an operation that refers to a stored model goes after that store
    out = []
    pos = {}
    for o in ops:
        out.append(o)
        pos[o["m"]] = len(out)
    for o in extra:
        lo = pos.get(o.pop("_after", None), 0)
        at = rng.randint(lo, len(out))
        out.insert(at, o)
        for m in pos:
            if pos[m] > at:
                pos[m] += 1
    if stratum == "rebind":  # keep the two stores in order
        ia = next(i for i, o in enumerate(out) if o["op"] == "store" and o["m"] == 0)
        ib = next(i for i, o in enumerate(out) if o["op"] == "store" and o["m"] == 1)
        if ia > ib:
            out[ia], out[ib] = out[ib], out[ia]
    return {"kind": "fidelity", "stratum": stratum, "datasets": datasets, "models": models, "ops": out}


def _apply_datainfo_variant(spec, entries, models):
    from pharmpy.workflows import ModelEntry

    for j, ms in enumerate(spec["models"]):
        var = ms.get("datainfo_variant")
        if not var:
            continue
        m = models[j]
        di = m.datainfo
        if var == "wgt_type":
            newcol = di["WGT"].replace(type="covariate")
        elif var == "dv_unit":
            newcol = di["DV"].replace(unit="mg")
        else:
            newcol = di["WGT"].replace(unit="kg")
        m = m.replace(datainfo=di.set_column(newcol))
        models[j] = m
        e = entries[j]
        entries[j] = m if not isinstance(e, ModelEntry) else ModelEntry.create(m, modelfit_results=e.modelfit_results)


def fidelity_case(rng, idx, base):
    c = Case()
    spec = gen_fidelity_workload(rng, idx)
    try:
        entries, models = G.build(spec, os.path.join(base, "src"))
    except Exception as e:  # the grammar generator may emit a record the model reader refuses (C01's business)
        c.refusal = "model-reader:" + type(e).__name__
        c.sample = {"kind": "fidelity", "models": [m.get("gen_meta") for m in spec["models"]]}
        return c
    _apply_datainfo_variant(spec, entries, models)
    c.sample = {"kind": "fidelity", "stratum": spec["stratum"], "ops": spec["ops"],
                "models": [{k: v for k, v in m.items() if k not in ("results", "gen_text")} | {"has_results": "results" in m, "generated": "gen_text" in m}
                           for m in spec["models"]]}
    c.fp = fp_of("fid", spec["ops"], [{k: v for k, v in m.items() if k != "results"} for m in spec["models"]], spec["datasets"])
    root = os.path.join(base, "run")
    status, out = crashfs.run_forked(lambda w: workload_child(w, spec, entries, models, root, "count", 0, 0.0), timeout=70)
    p = parse_progress(out)
    if status != 0 or p["harness"]:
        c.skipped = f"workload-child-failed:{status}"
        c.sample["harness"] = p["harness"]
        return c
    c.hit("fidelity_workloads")
    c.hit("fidelity_stratum:" + spec["stratum"])
    for i, why in p["raised"].items():
        op = spec["ops"][i - 1]["op"] if i else "open"
        t = why.split(" ")[0]
        if op.startswith("retrieve"):
            # a retrieval of something stored by a returned call that fails inside the workload is a violation too;
            # the fresh-process oracle below repeats the same retrieval, so it is only counted here
            c.hit(f"workload_retrieve_raised:{t}")
        else:
            c.hit(f"op_refused_without_fault:{op}:{t}")
    res, st = judge_in_child(root, spec, entries, models, set(p["returned"]), None, post=False, timeout=70)
    before = len(c.violations)
    if spec["stratum"] == "datainfo" and res is not None and res.get("viol"):
        # delta: the same model stored alone (nothing shares its data) must round-trip, otherwise it is not this mechanism
        for j, ms in enumerate(spec["models"]):
            if ms.get("datainfo_variant") and any(x.get("model") == j for x in res["viol"]):
                spec2 = dict(spec, ops=[{"op": "store", "m": j}])
                root2 = os.path.join(base, "alone")
                crashfs.run_forked(lambda w: workload_child(w, spec2, entries, models, root2, "count", 0, 0.0), timeout=70)
                res2, _ = judge_in_child(root2, spec2, entries, models, {0, 1}, None, post=False, timeout=70)
                c.hit("delta_checks")
                ms["delta_alone_roundtrips"] = bool(res2 is not None and "viol" in res2 and not res2["viol"])
    _merge(c, res, st, spec, None, "fidelity")
    if res is not None and "hits" in res:
        stores = sum(1 for i in p["returned"] if i >= 1 and spec["ops"][i - 1]["op"] in ("store", "store_input", "store_final", "db_store"))
        c.nontrivial = stores >= 1 and res["hits"].get("fid:log_rows", 0) >= 3 or (len(c.violations) > before and stores >= 1)
    return c


# =============================================================================================== concurrency case
def conc_case(rng, idx, base):
    from pharmpy.workflows.hashing import ModelHash

    c = Case()
    spec = G.gen_crash_workload(rng)
    spec["kind"] = "concurrency"
    spec["ops"] = []
    entries, models = G.build(spec, os.path.join(base, "src"))
    nm = len(models)
    nproc = rng.choice([2, 3, 3])
    plans = []
    for _ in range(nproc):
        plan = []
        for _ in range(rng.randint(4, 6)):
            j = rng.randrange(nm)
            plan.append([rng.choice(["store", "retrieve", "retrieve_key", "store", "retrieve"]), j])
        plans.append(plan)
    if rng.random() < 0.75:
        # aimed contention: one process stores a model while another reads the same key and a third stores the model
        # that shares its dataset; seeded start offsets let the others arrive in the middle of the first store
        plans[0][0] = ["store", 0]
        plans[1][0] = [rng.choice(["poll_key", "poll_key", "retrieve_key", "retrieve"]), 0]
        if nproc > 2:
            plans[2][0] = ["store", 1]
    starts = [0.0] + [rng.choice([0.0, 0.02, 0.05, 0.1, 0.15, 0.2, 0.3]) for _ in range(nproc - 1)]
    # every mutation event of a process is preceded by a short sleep (seeded): a store then lasts 0.1-0.4 s instead of
    # 15 ms and the other processes' retrievals really fall between its file operations
    delays = [rng.choice([0.002, 0.004, 0.008]) for _ in range(nproc)]
    c.sample = {"kind": "concurrency", "plans": plans, "delays": delays, "start_offsets": starts, "models": [m["name"] for m in spec["models"]]}
    c.fp = fp_of("conc", plans, delays, starts, spec["models"], spec["datasets"])
    root = os.path.join(base, "run")
    os.makedirs(root)
    # the context is created before the race: concurrent *creation* of one context is not part of the property
    st0, _ = crashfs.run_forked(lambda w: open_ctx(root))
    if st0 != 0:
        c.skipped = "context-creation-failed"
        return c
    gate_r, gate_w = os.pipe()

    def worker(plan, delay, start):
        def child(w):
            os.close(gate_w)
            os.read(gate_r, 1)  # returns at EOF: all processes start together
            time.sleep(start)
            hits = Counter()
            out = []
            ctx = open_ctx(root)
            # long pauses before the commit-critical steps (a retrieval needs ~0.3 s between its first and last read)
            crashfs.arm(root, "delay", frac=delay, slow=(("results.json", ".datainfo", "PENDING", "annotations"), 0.4))
            for kind, j in plan:
                n = spec["models"][j]["name"]
                try:
                    if kind == "store":
                        ctx.store_model_entry(entries[j])
                        out.append(["stored", j])
                        continue
                    if kind == "poll_key":
                        # ask again and again until the entry is visible (bounded): the first sighting falls right after
                        # the first file of the entry appears - it must nevertheless be the complete entry
                        t_end = time.monotonic() + 4.0
                        while True:
                            try:
                                me = ctx.model_database.retrieve_model_entry(ModelHash(models[j]))
                                break
                            except Exception:
                                hits["polls_refused"] += 1
                                if time.monotonic() > t_end:
                                    raise
                                time.sleep(0.001)
                    else:
                        me = ctx.retrieve_model_entry(n) if kind == "retrieve" else ctx.model_database.retrieve_model_entry(ModelHash(models[j]))
                except Exception as e:  # noqa
                    out.append([kind + "_raised", j, _exc(e), str(e)[:120]])
                    continue
                d = cmp_entry(me, entries[j], models[j], hits, name=n if kind == "retrieve" else None,
                              descs={spec["models"][j]["desc"]} if kind == "retrieve" else None)
                out.append([kind + "_ok" if not d else kind + "_bad", j, d])
            out.append(["polls", -1, hits.get("polls_refused", 0)])
            os.write(w, b"J " + json.dumps(out, default=repr).encode() + b"\n")
        return child

    # no threads: all children are forked first, then the parent opens the gate
    results = crashfs.run_forked_many([worker(p, d, t) for p, d, t in zip(plans, delays, starts)], timeout=60, after_fork=lambda: os.close(gate_w))
    os.close(gate_r)
    finished = 0
    stored = set()
    entry_seen = False
    for i, (status, out) in enumerate(results):
        line = next((x for x in out.decode("utf-8", "replace").splitlines() if x.startswith("J ")), None)
        if status != 0 or line is None:
            c.hit(f"not_judged:concurrent-process:{status}")
            continue
        finished += 1
        for rec in json.loads(line[2:]):
            kind, j = rec[0], rec[1]
            if kind == "polls":
                c.hit("conc:polls_refused_before_first_sighting", rec[2])
            elif kind == "stored":
                stored.add(j)
                c.hit("conc:stores")
            elif kind == "store_raised":
                # the property speaks about readers and about interrupted stores, not about the outcome of a store that
                # races with another store of the same name
                c.hit("not_judged:concurrent-store-raised:" + rec[2])
            elif kind.endswith("_raised"):
                c.hit("conc:retrievals")
                c.hit("refusal:" + rec[2] if rec[2] in REFUSALS else "refusal_other:" + rec[2])
            elif kind.endswith("_ok"):
                c.hit("conc:retrievals")
                c.hit("conc:retrieved_entry_equal")
                entry_seen = True
            else:
                c.hit("conc:retrievals")
                c.violate(None, f"(A) a concurrent reader obtained an entry that is not what was stored: {'; '.join(rec[2])[:400]}",
                          dict(process=i, model=j, diffs=rec[2]))
    # after the join: every store that returned is retrievable
    spec2 = dict(spec, ops=[{"op": "store", "m": j} for j in sorted(stored)])
    res, st = judge_in_child(root, spec2, entries, models, set(range(len(spec2["ops"]) + 1)), None, post=False)
    _merge(c, res, st, spec2, None, "after concurrent processes joined")
    c.nontrivial = finished >= 2 and entry_seen
    return c


# =============================================================================================== evidence
def extra_coverage(recs, tier):
    inj = sum(r["counters"].get("crash_points_injected", 0) for r in recs)
    ev = sum(r["counters"].get("restart_oracle_evals", 0) for r in recs)
    ncrash = LAYOUT[tier][0]
    groups = {}
    for r in recs:
        if r["idx"] < ncrash and not r.get("skipped"):
            groups.setdefault(r["idx"] // len(SUBCASES), []).append(r["counters"].get("workloads_exhaustive", 0))
    full = sum(1 for g in groups.values() if len(g) == len(SUBCASES) and all(g))
    return {"crash": {"workloads": len(groups), "workloads_with_every_crash_point_in_every_flavour_enumerated": full,
                      "subcases": sum(len(g) for g in groups.values()), "subcases_exhaustive": sum(sum(g) for g in groups.values()),
                      "crash_points_injected": inj, "restart_oracle_evaluations": ev,
                      "exhaustive_dimension": "crash point k within each workload, for each flavour"}}
