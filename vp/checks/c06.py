"""C06 Models are immutable values: no API call changes its input; equal means equal; results are well formed.

The contracts of vp.contracts (K-IMM, K-WF, K-EQ) are installed on the whole public modeling API; workloads:
  H  random transformation histories (the C02 alphabet) - arguments are products of earlier calls, DataFrames shared
  D  the docstring examples of every function in pharmpy.modeling.__all__, executed as written
  S  signature sweep: every function whose only required parameter is the model, called on corpus models
  A  aliasing probe: one base model object passed to many functions, compared once before and once after
"""
from __future__ import annotations

import doctest
import inspect
import io
import contextlib

from vp.farm import Case, fp_of

PROP = "C06"
LEVEL = "exploration"
RULE = (
    "monitored public calls from four workloads (histories, docstring examples, signature sweep, aliasing probe); a "
    "case is distinct by (workload, function/history) and non-trivial when at least one monitored call with a Model "
    "argument returned or raised and its K-IMM snapshot was compared"
)
ASSUMPTIONS = [
    "snapshot = dataset row hashes + columns + dtypes + identity, datainfo/parameters/rvs/statements/execution steps "
    "as dicts, name, description, NONMEM control stream text",
    "well-formedness in delta form: symbols undefined in the result but already undefined in an argument model, and "
    "NONMEM reserved names, are not reported",
    "plotting / printing / file-writing helpers return no Model and are only judged by K-IMM",
]
MIN_NONTRIVIAL = {"quick": 300, "thorough": 3000}
REQUIRED_MONITORS = ["K-IMM", "K-WF", "K-EQ", "calls"]
BATCH_TIMEOUT = {"quick": 2400, "thorough": 6 * 3600}

_functions = []


def n_cases(tier):
    return 700 if tier == "quick" else 9000


def setup(tier):
    import pharmpy.modeling as pm
    import pharmpy.tools  # noqa

    from vp import contracts, histories

    contracts.install()
    with contracts.off():
        histories.start_models()
    for name in pm.__all__:
        f = getattr(pm, name, None)
        if callable(f) and (inspect.isfunction(f) or hasattr(f, "__vp_wrapped__")):
            _functions.append(name)


def classify(ev):
    """Mechanism key of a contract event (None = unclassified)."""
    msg = ev["msg"]
    if ev["kind"] == "K-EQ":
        if "rebuilt from to_dict() hashes differently" in msg and ("CompartmentalSystem" in msg or "Statements" in msg):
            return "C06/cs-hash-identity"  # Statements hash includes the ODE system's identity-based hash
        if "differ in one data cell compare equal but hash differently" in msg:
            return "C06/model-eq-ignores-dataset-hash-does-not"
    if ev["kind"] == "K-WF":
        if "drop_columns returned" in msg and "symbols that nothing defines" in msg:
            return "C06/drop-columns-used-by-statements"
        if "set_transit_compartments returned" in msg and "'ALAG" in msg:
            return "C06/transits-keep-lag-symbol-without-definition"
        if "cleanup_model returned" in msg and "symbols that nothing defines" in msg:
            return "C06/cleanup-model-drops-used-definition"
        if ("add_pk_iiv returned" in msg or "add_iiv returned" in msg) and "duplicate random variable names" in msg:
            return "C06/add-iiv-custom-eta-name-collision"
    return None


def run_case(rng, idx, tier):
    from vp import contracts

    contracts.drain()
    before = dict(contracts.COUNTS)
    c = Case()
    kind = ["H", "H", "H", "D", "D", "S", "A"][idx % 7]
    if idx % 14 == 13:
        kind = "N"
    if idx % 14 == 6:
        kind = "B"
    if idx % 28 == 20:
        kind = "W"
    try:
        if kind == "H":
            _history(c, rng, tier)
        elif kind == "D":
            _doctests(c, rng, idx)
        elif kind == "S":
            _sweep(c, rng, idx)
        elif kind == "N":
            _collide(c, rng)
        elif kind == "B":
            _boundary(c, rng)
        elif kind == "W":
            _illformed(c, rng)
        else:
            _alias(c, rng)
    finally:
        after = contracts.COUNTS
        for k in ("K-IMM", "K-WF", "K-EQ", "calls", "nested_calls"):
            d = after.get(k, 0) - before.get(k, 0)
            if d:
                c.hit(k, d)
        for k, v in after.items():
            if k.startswith("call:"):
                d = v - before.get(k, 0)
                if d:
                    c.states.append(k[5:])
        for ev in contracts.drain():
            c.violate(classify(ev), f"[{ev['kind']}] {ev['msg']}", ev.get("extra"))
    c.nontrivial = c.counters.get("K-IMM", 0) > 0
    return c


def _fresh(model):
    from vp import contracts

    with contracts.off():
        if model.dataset is not None:
            return model.replace(dataset=model.dataset.copy())
    return model


def _history(c, rng, tier):
    from vp import contracts, histories

    A = histories.alphabet()
    with contracts.off():
        starts = histories.start_models()
    sname = rng.choice(sorted(starts))
    model = _fresh(starts[sname])
    hist = histories.random_history(rng, rng.randint(2, 6 if tier == "quick" else 9))
    applied = []
    for name in hist:
        try:
            new = A[name][1](model, rng)
        except Exception as e:
            c.hit("step_" + histories.classify_exception(e))
            continue
        if new is not None:
            model = new
            applied.append(name)
    c.sample = {"workload": "history", "start": sname, "history": hist, "applied": applied}
    c.fp = fp_of("H", sname, applied)


def _doctests(c, rng, idx):
    import pharmpy.modeling as pm

    name = _functions[(idx // 7) % len(_functions)] if rng.random() < 0.8 else rng.choice(_functions)
    f = getattr(pm, name)
    doc = inspect.getdoc(getattr(f, "__vp_wrapped__", f)) or ""
    examples = doctest.DocTestParser().get_examples(doc)
    glob = {"__name__": "__vp_doctest__"}
    ran = 0
    with contextlib.redirect_stdout(io.StringIO()), contextlib.redirect_stderr(io.StringIO()):
        for ex in examples:
            if "# doctest: +SKIP" in ex.source or "plot" in ex.source or "run_" in ex.source or "fit(" in ex.source:
                continue
            try:
                exec(compile(ex.source, f"<doctest {name}>", "single"), glob)
                ran += 1
            except Exception:
                c.hit("doctest_example_raised")
    c.hit("doctest_examples_run", ran)
    c.sample = {"workload": "doctest", "function": name, "examples": ran}
    c.fp = fp_of("D", name)


_DT_CODE = """$PROBLEM date and clock time
$INPUT ID DAT2=DROP TIME AMT DV WGT
$DATA data.csv IGNORE=@
$SUBROUTINE ADVAN1 TRANS2
$PK
CL = THETA(1)*EXP(ETA(1))*WGT/70
V = THETA(2)*EXP(ETA(2))
S1 = V
$ERROR
Y = F + F*EPS(1)
$THETA (0,0.1)
$THETA (0,5)
$OMEGA 0.1
$OMEGA 0.1
$SIGMA 0.05
$ESTIMATION METHOD=1 INTER
"""
_DT_DATA = """ID,DAT2,TIME,AMT,DV,WGT
1,2021-03-01,07:30,100,0,70
1,2021-03-01,09:45,0,12.5,70
1,2021-03-02,07:30,100,0,70
1,2021-03-02,11:00,0,15.1,70
2,2021-04-10,13:00,100,0,82
2,2021-04-10,19:20,0,8.7,82
2,2021-04-11,13:00,0,3.9,82
"""
_dt_model = []


def _datetime_model():
    """A model whose dataset has a date column and clock times (reaches the date/time branches of the data functions)."""
    import os
    from pathlib import Path

    from pharmpy.modeling import read_model

    if not _dt_model:
        d = Path(os.environ["VERIF_SCRATCH"]) / "c06dt"
        d.mkdir(parents=True, exist_ok=True)
        (d / "data.csv").write_text(_DT_DATA)
        (d / "run1.mod").write_text(_DT_CODE)
        _dt_model.append(read_model(d / "run1.mod"))
    return _dt_model[0]


def _sweep(c, rng, idx):
    import pharmpy.modeling as pm

    from vp import contracts, histories

    with contracts.off():
        starts = histories.start_models()
    if rng.random() < 0.25:
        with contracts.off():
            sname, model = "datetime", _fresh(_datetime_model())
        names = [n for n in _functions if "time" in n or "date" in n] + rng.sample(_functions, 15)
    else:
        sname = rng.choice(sorted(starts))
        model = _fresh(starts[sname])
        names = rng.sample(_functions, 25)
        if rng.random() < 0.6:
            model, pre = _enrich(model, rng)
            sname = sname + "+" + "+".join(pre)
            # the functions that read the event data are all called on a model with derived columns
            words = ("dose", "concentration", "observation", "time", "admid", "cmt", "evid", "mdv", "baseline", "individual")
            names = [n for n in _functions if any(w in n for w in words)] + rng.sample(_functions, 15)
    called = []
    with contextlib.redirect_stdout(io.StringIO()), contextlib.redirect_stderr(io.StringIO()):
        for name in names:
            f = getattr(pm, name)
            try:
                sig = inspect.signature(getattr(f, "__vp_wrapped__", f))
            except (TypeError, ValueError):
                continue
            params = list(sig.parameters.values())
            if not params or params[0].name != "model":
                continue
            if any(p.default is inspect.Parameter.empty and p.kind in (p.POSITIONAL_ONLY, p.POSITIONAL_OR_KEYWORD) for p in params[1:]):
                continue
            if any(w in name for w in ("plot", "print", "write", "run", "fit", "sample", "bump", "load_example")):
                continue
            try:
                f(model)
                called.append(name)
            except Exception:
                c.hit("sweep_call_raised")
                called.append(name + "!")
    c.sample = {"workload": "sweep", "start": sname, "called": called}
    c.fp = fp_of("S", sname, tuple(called))


def _enrich(model, rng):
    """Start models of the signature sweep that the corpus does not contain: the result of one to three model-only
    calls that add derived data columns or components (time after dose, administration / compartment ids, ...), and
    initial individual estimates that carry a column for an eta the model does not have (what a candidate inherits
    from its parent's results after an eta was removed).  Runs with the contracts off (the calls are judged elsewhere)."""
    import pandas as pd
    import pharmpy.modeling as pm

    from vp import contracts

    adders = ["add_time_after_dose", "add_admid", "add_cmt", "add_time_of_last_dose", "set_dvid", "add_predictions",
              "add_residuals", "add_pk_iiv", "set_iiv_on_ruv", "add_lag_time", "add_bioavailability",
              "add_peripheral_compartment", "set_zero_order_absorption", "set_additive_error_model", "undrop_columns"]
    pre = []
    with contracts.off(), contextlib.redirect_stdout(io.StringIO()), contextlib.redirect_stderr(io.StringIO()):
        for name in rng.sample(adders, rng.randint(1, 3)):
            f = getattr(pm, name, None)
            if f is None:
                continue
            try:
                new = f(model)
                if new is not None and hasattr(new, "statements"):
                    model = new
                    pre.append(name)
            except Exception:
                pass
        if rng.random() < 0.4:
            try:
                etas = list(model.random_variables.etas.names)
                ids = sorted(set(model.dataset[model.datainfo.id_column.name]))
                cols = etas + ["ETA_GONE"]
                rows = [[round(rng.uniform(-0.5, 0.5), 3) for _ in cols] for _ in ids]
                iie = pd.DataFrame(rows, columns=cols, index=pd.Index(ids, name="ID"))
                model = model.replace(initial_individual_estimates=iie)
                pre.append("iie-with-extra-eta-column")
            except Exception:
                pass
    return model, pre


def _collide(c, rng):
    """Name collisions: public calls asked to create something under a name the model already uses.  Every call may
    refuse (raise); a call that returns must return a well-formed model (K-WF: unique names, nothing undefined)."""
    import pharmpy.modeling as pm
    from pharmpy.model import Parameter

    from vp import contracts, histories

    A = histories.alphabet()
    with contracts.off():
        starts = histories.start_models()
        sname = rng.choice(sorted(starts))
        model = _fresh(starts[sname])
        for name in histories.random_history(rng, rng.randint(0, 2)):
            try:
                new = A[name][1](model, rng)
                if new is not None:
                    model = new
            except Exception:
                pass
        pnames = list(model.parameters.names)
        etas = list(model.random_variables.etas.names)
        assigned = [s.symbol.name for s in model.statements if hasattr(s, "symbol")]
    calls = []
    p = rng.choice(pnames)
    calls.append(("add_population_parameter", lambda: pm.add_population_parameter(model, p, 0.5)))
    calls.append(("add_individual_parameter", lambda: pm.add_individual_parameter(model, rng.choice(assigned))))
    if etas and assigned and rng.random() < 0.3:  # stratum B: the construct of C06/add-iiv-custom-eta-name-collision
        calls.append(("add_iiv:existing-eta-name", lambda: pm.add_iiv(model, rng.choice(assigned), "exp", eta_names=[rng.choice(etas)])))
    # (rename_symbols onto an existing name is excluded: its docstring makes name clashes the caller's responsibility)
    calls.append(("Parameters.__add__", None))
    calls.append(("add_effect_compartment", lambda: pm.add_effect_compartment(pm.add_effect_compartment(model, "linear"), "linear")))
    calls.append(("add_metabolite", lambda: pm.add_metabolite(pm.add_metabolite(model))))
    calls.append(("add_peripheral_compartment", lambda: pm.add_peripheral_compartment(model, "PERIPHERAL1")))
    done = []
    with contextlib.redirect_stdout(io.StringIO()):
        for name, fn in rng.sample(calls, min(len(calls), 6)):
            try:
                if fn is None:
                    # the component-level form of the same request
                    c.hit("collide_component_call")
                    res = model.parameters + Parameter.create(p, 0.25)
                    nm = list(res.names)
                    if len(set(nm)) != len(nm):
                        c.violate(None, f"[K-WF] Parameters + Parameter({p!r}) returned parameters with duplicate names {sorted(set(n for n in nm if nm.count(n) > 1))}")
                elif name == "add_iiv:existing-eta-name":
                    pre = contracts.drain()
                    try:
                        fn()
                    finally:
                        for ev in contracts.drain():
                            key = ("C06/add-iiv-custom-eta-name-collision"
                                   if ev["kind"] == "K-WF" and "add_iiv returned" in ev["msg"] and "duplicate random variable names" in ev["msg"]
                                   else classify(ev))
                            c.violate(key, f"[{ev['kind']}] {ev['msg']}", ev.get("extra"))
                        contracts.EVENTS.extend(pre) if hasattr(contracts, "EVENTS") else None
                else:
                    fn()
                done.append(name)
            except Exception:
                c.hit("collide_call_refused")
                done.append(name + "!")
    c.hit("collide_calls", len(done))
    c.sample = {"workload": "collide", "start": sname, "calls": done}
    c.fp = fp_of("N", sname, tuple(done), p)


def _boundary(c, rng):
    """Boundary arguments: public parameter-editing calls asked for a value that conflicts with what the model holds
    (a bound on the wrong side of the initial estimate, an initial estimate outside the bounds, a fixed value outside the
    bounds, a new parameter whose initial estimate is outside its own bounds).  Every call may refuse (raise); a call
    that returns must return a well-formed model (K-WF: every initial estimate within its bounds)."""
    import pharmpy.modeling as pm

    from vp import contracts, histories

    A = histories.alphabet()
    with contracts.off():
        starts = histories.start_models()
        sname = rng.choice(sorted(starts))
        model = _fresh(starts[sname])
        for name in histories.random_history(rng, rng.randint(0, 2)):
            try:
                new = A[name][1](model, rng)
                if new is not None:
                    model = new
            except Exception:
                pass
        params = [q for q in model.parameters if not q.fix] or list(model.parameters)
    q = rng.choice(params)
    q2 = rng.choice(params)
    mag = abs(float(q.init)) + 1.0
    inf = float("inf")
    calls = [
        ("set_upper_bounds:below-init", lambda: pm.set_upper_bounds(model, {q.name: float(q.init) - mag * rng.choice([0.5, 1, 10])})),
        ("set_lower_bounds:above-init", lambda: pm.set_lower_bounds(model, {q.name: float(q.init) + mag * rng.choice([0.5, 1, 10])})),
        ("set_upper_bounds:at-init", lambda: pm.set_upper_bounds(model, {q.name: float(q.init)})),
        ("set_lower_bounds:at-init", lambda: pm.set_lower_bounds(model, {q.name: float(q.init)})),
        ("set_upper_bounds:two", lambda: pm.set_upper_bounds(model, {q.name: float(q.init) + mag, q2.name: float(q2.init) - 2 * abs(float(q2.init)) - 1})),
        ("set_initial_estimates:above-upper", lambda: pm.set_initial_estimates(
            pm.set_upper_bounds(model, {q.name: float(q.init) + mag}), {q.name: float(q.init) + 3 * mag})),
        ("set_initial_estimates:below-lower", lambda: pm.set_initial_estimates(
            pm.set_lower_bounds(model, {q.name: float(q.init) - mag}), {q.name: float(q.init) - 3 * mag})),
        ("fix_parameters_to:outside", lambda: pm.fix_parameters_to(
            pm.set_upper_bounds(model, {q.name: float(q.init) + mag}), {q.name: float(q.init) + 3 * mag})),
        ("add_population_parameter:init-outside", lambda: pm.add_population_parameter(model, "BNDP1", 0.5, lower=1.0, upper=2.0)),
        ("add_population_parameter:lower-above-upper", lambda: pm.add_population_parameter(model, "BNDP2", 1.5, lower=2.0, upper=1.0)),
        ("unconstrain_then_lower", lambda: pm.set_lower_bounds(pm.unconstrain_parameters(model, [q.name]), {q.name: float(q.init) + mag})),
    ]
    done = []
    with contextlib.redirect_stdout(io.StringIO()):
        for name, fn in rng.sample(calls, 6):
            try:
                fn()
                done.append(name)
            except Exception:
                c.hit("boundary_call_refused")
                done.append(name + "!")
    c.hit("boundary_calls", len(done))
    c.sample = {"workload": "boundary", "start": sname, "parameter": q.name, "calls": done}
    c.fp = fp_of("B", sname, q.name, tuple(done))


def _illformed(c, rng):
    """Ill-formed statement lists handed to Model.replace / Model.create: a first definition that reads the symbol it
    defines (X = f(X) with no earlier X), a definition moved behind its first use, a symbol nothing defines.  The call
    may refuse; if it returns, the returned model must be well formed (K-WF: every symbol used by a statement is a
    parameter, random variable, data column, t or defined by an EARLIER statement)."""
    import sympy
    from pharmpy.model import Assignment, Model, Statements

    from vp import contracts, histories

    A = histories.alphabet()
    with contracts.off():
        starts = histories.start_models()
        sname = rng.choice(sorted(starts))
        model = _fresh(starts[sname])
        for name in histories.random_history(rng, rng.randint(0, 2)):
            try:
                new = A[name][1](model, rng)
                if new is not None:
                    model = new
            except Exception:
                pass
        sts = list(model.statements)
        first_def = {}
        for i, st in enumerate(sts):
            if isinstance(st, Assignment):
                first_def.setdefault(st.symbol.name, i)
        known = set(model.parameters.names) | set(model.random_variables.names) | set(model.datainfo.names) | {"t"}
        cands = [(n, i) for n, i in first_def.items() if n not in known]
        variants = []
        if cands:
            n, i = rng.choice(cands)
            x = sympy.Symbol(n)
            e = sympy.sympify(sts[i].expression)
            v1 = list(sts)
            v1[i] = Assignment.create(x, rng.choice([x * (1 + e), x + e, sympy.exp(x) * e, sympy.Piecewise((x, e > 0), (e, True))]))
            variants.append((f"first definition of {n} reads {n}", v1))
            users = [j for j in range(i + 1, len(sts)) if isinstance(sts[j], Assignment) and x in sympy.sympify(sts[j].expression).free_symbols
                     and sts[j].symbol.name != n]
            later_defs = [j for j in range(i + 1, len(sts)) if isinstance(sts[j], Assignment) and sts[j].symbol.name == n]
            if users and not [j for j in later_defs if j < users[0]] and all(isinstance(sts[k], Assignment) for k in range(i, users[0] + 1)):
                j = users[0]
                v2 = sts[:i] + sts[i + 1:j + 1] + [sts[i]] + sts[j + 1:]
                variants.append((f"definition of {n} moved behind its first use by {sts[j].symbol.name}", v2))
            v3 = list(sts)
            v3[i] = Assignment.create(x, e + sympy.Symbol("UNDEFINEDSYM"))
            variants.append((f"{n} reads UNDEFINEDSYM, which nothing defines", v3))
    done = []
    for what, new_sts in variants:
        for form in ("replace", "create"):
            c.hit("illformed_requests")
            try:
                with contracts.off():
                    if form == "replace":
                        res = model.replace(statements=Statements(tuple(new_sts)))
                    else:
                        res = Model.create(parameters=model.parameters, random_variables=model.random_variables,
                                           statements=Statements(tuple(new_sts)), datainfo=model.datainfo,
                                           dependent_variables=model.dependent_variables)
            except Exception:
                c.hit("illformed_request_refused")
                done.append(f"{form}:{what}!")
                continue
            with contracts.off():
                und = contracts.undefined_symbols(res) - contracts.undefined_symbols(model) - contracts.RESERVED
            c.hit("K-WF")
            if und:
                c.violate(None, f"[K-WF] Model.{form} accepted a statement list in which {what}: the returned model uses "
                                f"{sorted(und)} before / without any definition")
            done.append(f"{form}:{what}")
    c.sample = {"workload": "illformed", "start": sname, "requests": done}
    c.fp = fp_of("W", sname, tuple(done))


def _alias(c, rng):
    from vp import contracts, histories

    A = histories.alphabet()
    with contracts.off():
        starts = histories.start_models()
        sname = rng.choice(sorted(starts))
        base = _fresh(starts[sname])
        snap0 = contracts.snapshot(base)
    names = rng.sample(sorted(A), 20)
    applied = []
    with contextlib.redirect_stdout(io.StringIO()):
        for name in names:
            try:
                A[name][1](base, rng)
                applied.append(name)
            except Exception:
                pass
    with contracts.off():
        snap1 = contracts.snapshot(base)
    c.hit("alias_probe")
    changed = contracts.diff_snap(snap0, snap1)
    if changed:
        c.violate(None, f"[K-IMM] base model changed after 20 independent calls on it: {changed}", {"applied": applied})
    c.sample = {"workload": "alias", "start": sname, "applied": applied}
    c.fp = fp_of("A", sname, tuple(applied))
