"""C08 Structural feature setters are detectable, idempotent, reversible and total.

For request sequences over the MFL feature alphabet applied to corpus PK models:
  D  after request f the detector of f's category reports exactly f, and the detectors of the other categories
     report what they reported before (pharmpy's detectors, cross-checked by an independent shape classifier of the
     compartment graph);
  I  f;f has the same model function as f                  (vp.denote.compare_models)
  R  f; undo(f) has the same model function as before f    (up to initial estimates)
  T  only documented refusals escape (ValueError, NotImplementedError, ...), never an internal error.
"""
from __future__ import annotations

import random

from vp.farm import Case, fp_of

PROP = "C08"
LEVEL = "exploration"
RULE = (
    "request sequences of length <= 3 over 17 feature requests (absorption x4, elimination x4, peripherals 0-2, "
    "transits 0/1/3, lag on/off, bioavailability on/off) from 4 corpus start models; quick: all sequences of length 1 "
    "and 2 plus random length 3; thorough: all of length <= 3 (exhaustive over this alphabet); distinct by (start, "
    "sequence); non-trivial when the last request was applied and its detectors and the idempotence check were judged"
)
ASSUMPTIONS = [
    "independent shape classifier (vp.checks.c08.shape): depot = dosing compartment with one first-order flow to "
    "central; transit chain = chain of single-in/single-out compartments before the depot/central; peripheral = "
    "compartment exchanging with central in both directions only; elimination form from the output rate evaluated "
    "at two amounts; absorption from dose type and dosing compartment",
    "reversibility is judged on vector field, F and Y with parameters matched by name (initial estimates and "
    "removed/added parameters are not compared)",
    "refusal set: ValueError, NotImplementedError, ModelSyntaxError, KeyError with a message",
]
MIN_NONTRIVIAL = {"quick": 250, "thorough": 8000}
REQUIRED_MONITORS = ["detector", "shape", "others_unchanged", "idempotent", "reversible"]
BATCH_TIMEOUT = {"quick": 2400, "thorough": 8 * 3600}

CATS = ["absorption", "elimination", "peripherals", "transits", "lagtime", "bioavailability"]


def requests():
    import pharmpy.modeling as pm

    # name -> (category, expected value, apply, undo (or None))
    return {
        "ABS_FO": ("absorption", "FO", pm.set_first_order_absorption, None),
        "ABS_ZO": ("absorption", "ZO", pm.set_zero_order_absorption, None),
        "ABS_SEQ": ("absorption", "SEQ-ZO-FO", pm.set_seq_zo_fo_absorption, None),
        "ABS_INST": ("absorption", "INST", pm.set_instantaneous_absorption, None),
        "ELIM_FO": ("elimination", "FO", pm.set_first_order_elimination, None),
        "ELIM_MM": ("elimination", "MM", pm.set_michaelis_menten_elimination, None),
        "ELIM_MIX": ("elimination", "MIX-FO-MM", pm.set_mixed_mm_fo_elimination, None),
        "ELIM_ZO": ("elimination", "ZO", pm.set_zero_order_elimination, None),
        "PER_0": ("peripherals", 0, lambda m: pm.set_peripheral_compartments(m, 0), None),
        "PER_1": ("peripherals", 1, lambda m: pm.set_peripheral_compartments(m, 1), None),
        "PER_2": ("peripherals", 2, lambda m: pm.set_peripheral_compartments(m, 2), None),
        "TR_0": ("transits", 0, lambda m: pm.set_transit_compartments(m, 0), None),
        "TR_1": ("transits", 1, lambda m: pm.set_transit_compartments(m, 1), None),
        "TR_3": ("transits", 3, lambda m: pm.set_transit_compartments(m, 3), None),
        "LAG_ON": ("lagtime", True, pm.add_lag_time, pm.remove_lag_time),
        "LAG_OFF": ("lagtime", False, pm.remove_lag_time, None),
        "BIO_ON": ("bioavailability", True, pm.add_bioavailability, pm.remove_bioavailability),
        "BIO_OFF": ("bioavailability", False, pm.remove_bioavailability, None),
        "PER_ADD": ("peripherals", "+1", pm.add_peripheral_compartment, pm.remove_peripheral_compartment),
    }


NAMES = ["ABS_FO", "ABS_ZO", "ABS_SEQ", "ABS_INST", "ELIM_FO", "ELIM_MM", "ELIM_MIX", "ELIM_ZO", "PER_0", "PER_1", "PER_2",
         "TR_0", "TR_1", "TR_3", "LAG_ON", "LAG_OFF", "BIO_ON", "BIO_OFF", "PER_ADD"]
STARTS = ["pheno_iv", "pheno_oral", "pheno_zo", "pheno_2cmt"]

_plan = {}


def _sequences(tier):
    if tier in _plan:
        return _plan[tier]
    seqs = []
    for s in STARTS:
        for a in NAMES:
            seqs.append((s, (a,)))
    for s in STARTS:
        for a in NAMES:
            for b in NAMES:
                seqs.append((s, (a, b)))
    if tier == "thorough":
        for s in STARTS:
            for a in NAMES:
                for b in NAMES:
                    for c in NAMES:
                        seqs.append((s, (a, b, c)))
    else:
        r = random.Random(12345)
        for _ in range(260):
            seqs.append((r.choice(STARTS), tuple(r.choice(NAMES) for _ in range(3))))
        # every length-3 sequence over the requests that act on the dosing side (absorption, lag time, bioavailability,
        # transits): they move dose, lag time and bioavailability between compartments and interact three deep
        dosing_side = [n for n in NAMES if n.startswith(("ABS_", "LAG_", "BIO_", "TR_"))]
        have = set(seqs)
        for s in ("pheno_iv", "pheno_oral", "mox2"):
            for a in dosing_side:
                for b in dosing_side:
                    for c in dosing_side:
                        if (s, (a, b, c)) not in have:
                            seqs.append((s, (a, b, c)))
    _plan[tier] = seqs
    return seqs


def n_cases(tier):
    return len(_sequences(tier))


def setup(tier):
    import pharmpy.modeling  # noqa

    from vp import histories

    histories.start_models()
    histories.extra_models()
    _sequences(tier)


# ---------------------------------------------------------------------------------------------- detectors
def detect(model):
    """pharmpy's own detectors -> dict category -> value (or '<ExcType>' if a detector raises)."""
    import pharmpy.modeling as pm

    out = {}

    def safe(f):
        try:
            return f()
        except Exception as e:
            return f"<{type(e).__name__}>"

    # the has_* detectors are not exclusive by their documented definitions (a SEQ-ZO-FO model also "has" zero
    # and first order absorption); the reported feature is the first hit in the precedence that
    # get_model_features() documents: SEQ-ZO-FO > ZO > FO > INST and MIX-FO-MM > ZO > FO > MM
    ab = [n for n, f in (("SEQ-ZO-FO", pm.has_seq_zo_fo_absorption), ("ZO", pm.has_zero_order_absorption),
                         ("FO", pm.has_first_order_absorption), ("INST", pm.has_instantaneous_absorption))
          if safe(lambda: f(model)) is True]
    out["absorption"] = tuple(ab[:1])
    el = [n for n, f in (("MIX-FO-MM", pm.has_mixed_mm_fo_elimination), ("ZO", pm.has_zero_order_elimination),
                         ("FO", pm.has_first_order_elimination), ("MM", pm.has_michaelis_menten_elimination))
          if safe(lambda: f(model)) is True]
    out["elimination"] = tuple(el[:1])
    out["peripherals"] = safe(lambda: pm.get_number_of_peripheral_compartments(model))
    out["transits"] = safe(lambda: pm.get_number_of_transit_compartments(model))
    out["lagtime"] = safe(lambda: bool(pm.get_lag_times(model)))
    out["bioavailability"] = safe(lambda: bool(pm.get_bioavailability(model)))
    return out


def shape(model, rng):
    """Independent classification of the compartment graph (no pharmpy detector / find_* helper is used)."""
    from pharmpy.model import Bolus, output

    from vp.ir_eval import EvalError, Unbound, ev

    cs = model.statements.ode_system
    if cs is None:
        return None
    names = list(cs.compartment_names)
    comps = {n: cs.find_compartment(n) for n in names}
    out_edges = {n: [(getattr(d, "name", None), r) for d, r in cs.get_compartment_outflows(comps[n])] for n in names}
    in_edges = {n: [] for n in names}
    for n in names:
        for d, r in out_edges[n]:
            if d is not None:
                in_edges[d].append(n)
    # central: the compartment with an output flow (take the one with most connections)
    with_output = [n for n in names if any(d is None for d, _ in out_edges[n])]
    if not with_output:
        return None
    central = max(with_output, key=lambda n: len(out_edges[n]) + len(in_edges[n]))
    dosing = [n for n in names if comps[n].doses]
    res = {}
    # peripherals: exchange with central in both directions, nothing else
    per = [n for n in names if n != central and [d for d, _ in out_edges[n]] == [central] and in_edges[n] == [central]]
    res["peripherals"] = len(per)
    # walk from the dosing compartment towards central
    chain = []
    if dosing:
        cur = dosing[0]
        seen = set()
        while cur != central and cur not in seen:
            seen.add(cur)
            nxt = [d for d, _ in out_edges[cur] if d is not None]
            if len(nxt) != 1:
                break
            chain.append(cur)
            cur = nxt[0]
    # chain = compartments before central on the dosing path; the last one is the depot if its name says so or if
    # it is the only one
    depot = None
    transits = chain
    if chain:
        if chain[-1].upper().startswith("DEPOT") or len(chain) == 1 and not chain[0].upper().startswith("TRANSIT"):
            depot = chain[-1]
            transits = chain[:-1]
    res["transits"] = len(transits)
    res["has_depot"] = any(n.upper().startswith("DEPOT") for n in names)
    # absorption
    if dosing:
        d0 = comps[dosing[0]]
        dose = d0.doses[0]
        bolus = isinstance(dose, Bolus)
        if dosing[0] == central:
            res["absorption"] = "INST" if bolus else "ZO"
        else:
            res["absorption"] = "FO" if bolus else "SEQ-ZO-FO"
        res["lagtime"] = any(comps[n].lag_time != 0 for n in dosing)
        res["bioavailability"] = any(comps[n].bioavailability != 1 for n in dosing)
    # elimination: output rate of central as a function of its amount
    rate = [r for d, r in out_edges[central] if d is None][0]
    try:
        env = {}
        for p in model.parameters:
            env[p.name] = float(p.init)
        for n in model.random_variables.names:
            env[n] = 0.0
        rec = {}
        if model.dataset is not None:
            row = model.dataset.iloc[0]
            rec = {k: float(v) for k, v in row.items() if isinstance(v, (int, float))}
        env.update(rec)
        env["t"] = 1.0
        from pharmpy.model import Assignment

        store = dict(env)
        for s in model.statements.before_odes:
            if isinstance(s, Assignment):
                store[s.symbol.name] = ev(s.expression, store)
        fname = comps[central].amount.name

        def k(a):
            return ev(rate, store, {fname: a})

        k1, k2, k3 = k(1e-3), k(10.0), k(1e6)
        if abs(k1 - k2) <= 1e-9 * abs(k1) and abs(k1 - k3) <= 1e-9 * abs(k1):
            res["elimination"] = "FO"
        elif k3 < 1e-3 * k1:
            # saturable only: MM or ZO (ZO = MM with KM fixed to a tiny value)
            km_fixed_small = any(p.name.upper().startswith(("POP_KM", "KM")) and p.fix for p in model.parameters)
            res["elimination"] = "ZO" if km_fixed_small else "MM"
        else:
            res["elimination"] = "MIX-FO-MM"
    except (EvalError, Unbound, Exception):
        res["elimination"] = "?"
    return res


# ---------------------------------------------------------------------------------------------- the case
def apply(fn, model):
    from vp import histories

    try:
        return fn(model), None
    except Exception as e:
        return None, (histories.classify_exception(e), e)


def run_case(rng, idx, tier):
    from vp import denote, histories

    c = Case()
    start, seq = _sequences(tier)[idx]
    R = requests()
    model = histories.start_models()[start] if start in histories.start_models() else histories.extra_models()[start]
    if model.dataset is not None:
        model = model.replace(dataset=model.dataset.copy())
    c.sample = {"start": start, "requests": list(seq)}
    c.fp = fp_of(start, seq)
    applied = []
    K = 3
    hist = []  # (request, detectors before, shape before) of every request tried so far
    global _HIST
    for pos, name in enumerate(seq):
        cat, val, fn, undo = R[name]
        last = pos == len(seq) - 1
        before = model
        det_before = detect(before)
        hist.append((name, det_before, shape(before, rng)))
        _HIST = hist
        new, err = apply(fn, before)
        if err:
            kind, e = err
            if kind == "internal":
                c.violate(_key_total(name, applied, e, before), f"request {name} after {applied} on {start} failed with an internal error "
                                f"{type(e).__name__}: {str(e)[:150]}")
                return c
            c.hit("request_refused")
            if last:
                c.hit("last_request_refused")
            continue
        model = new
        applied.append(name)
        if not last:
            # The request under judgement is the last one.  It is judged on a state the earlier requests established:
            # when an earlier request did not establish what it asked for (that sequence is a case of its own, and
            # is reported there) the state is the product of a defect and nothing is concluded from it here.
            if not _established(cat, val, det_before, detect(model), shape(model, rng)):
                c.hit("prefix_not_established")
                c.skipped = "prefix-request-not-established"
                return c
            continue
        # ---------------- D: detectors
        det = detect(model)
        c.hit("detector")
        want = val
        got = det[cat]
        if val == "+1":
            want = det_before["peripherals"] + 1 if isinstance(det_before["peripherals"], int) else None
        ok = (got == (want,)) if cat in ("absorption", "elimination") else (got == want)
        if want is not None and not ok:
            c.violate(_key_det(name, applied, model), f"after {applied} on {start}: detector of {cat} reports {got!r}, requested {want!r}")
        for other in CATS:
            if other == cat:
                continue
            c.hit("others_unchanged")
            if det[other] != det_before[other] and not _coupled(cat, other, name):
                c.violate(_key_other(name, other, applied), f"after {applied} on {start}: requesting {name} changed the {other} detector "
                                f"{det_before[other]!r} -> {det[other]!r}")
        sh = shape(model, rng)
        if sh is not None:
            c.hit("shape")
            if cat in sh and want is not None and sh[cat] != "?" and sh[cat] != want and not (cat == "elimination" and want == "ZO" and sh[cat] in ("MM", "ZO")):
                c.violate(_key_shape(name, applied), f"after {applied} on {start}: the compartment graph shows {cat}={sh[cat]!r}, requested {want!r} "
                                f"(detector says {got!r})")
        # ---------------- I: idempotence
        again, err2 = apply(fn, model)
        if err2:
            if err2[0] == "internal":
                c.violate(_mech(name), f"repeating request {name} after {applied} on {start} failed with an internal error "
                                f"{type(err2[1]).__name__}: {str(err2[1])[:150]}")
            else:
                c.hit("repeat_refused")
        elif val != "+1":
            try:
                a, b = denote.IRDen(model), denote.IRDen(again)
                j = denote.compare_models(a, b, denote.records_of(model), random.Random(idx), K, c, prefix="idem_")
                c.hit("idempotent")
            except denote.Mismatch as mm:
                c.violate(_key_idem(name, applied), f"{name} applied twice after {applied[:-1]} on {start} differs from once: {mm.what}")
        # ---------------- R: reversibility
        if undo is not None:
            back, err3 = apply(undo, model)
            if err3:
                if err3[0] == "internal":
                    c.violate(_mech(name), f"undoing {name} after {applied} on {start} failed with an internal error {type(err3[1]).__name__}: {str(err3[1])[:150]}")
                else:
                    c.hit("undo_refused")
            else:
                try:
                    a, b = denote.IRDen(before), denote.IRDen(back)
                    denote.compare_models(a, b, denote.records_of(before), random.Random(idx + 1), K, c, prefix="rev_")
                    c.hit("reversible")
                except denote.Mismatch as mm:
                    c.violate(_key_rev(name, applied), f"{name} then its undo after {applied[:-1]} on {start} is not equivalent to before: {mm.what}")
        elif cat in ("peripherals", "transits") and val != "+1":
            # count categories: going back to the previous count must restore the model.  (Switching the type of
            # absorption / elimination replaces parameters together with their covariate and random effects; going
            # back is a new request, not an undo, and is not judged for equivalence.)
            # undo = request the previous value of the category again
            prev = det_before[cat]
            undo_name = _request_for(cat, prev)
            if undo_name:
                back, err3 = apply(R[undo_name][2], model)
                if err3:
                    if err3[0] == "internal":
                        c.violate(_mech(name), f"restoring {undo_name} after {applied} on {start} failed with an internal error {type(err3[1]).__name__}: {str(err3[1])[:150]}")
                    else:
                        c.hit("undo_refused")
                else:
                    try:
                        a, b = denote.IRDen(before), denote.IRDen(back)
                        denote.compare_models(a, b, denote.records_of(before), random.Random(idx + 1), K, c, prefix="rev_")
                        c.hit("reversible")
                    except denote.Mismatch as mm:
                        c.violate(_key_rev(name, applied), f"{name} then {undo_name} after {applied[:-1]} on {start} is not equivalent to before: {mm.what}")
        c.nontrivial = True
    return c


def _established(cat, val, det_before, det, sh):
    want = val
    if val == "+1":
        want = det_before["peripherals"] + 1 if isinstance(det_before["peripherals"], int) else None
    if want is None:
        return True
    got = det[cat]
    ok = (got == (want,)) if cat in ("absorption", "elimination") else (got == want)
    if not ok:
        return False
    if sh is not None and cat in sh and sh[cat] != "?" and sh[cat] != want and not (cat == "elimination" and want == "ZO" and sh[cat] in ("MM", "ZO")):
        return False
    # a state on which pharmpy's detectors and the independent reading of the compartment graph disagree in any
    # category is not an established state either (same reporting rule: the sequence up to here is its own case)
    if sh is not None:
        for other in CATS:
            if other == cat or other not in sh or sh[other] == "?":
                continue
            d = det[other]
            d = d[0] if isinstance(d, tuple) and len(d) == 1 else d
            if d != sh[other] and not (other == "elimination" and sh[other] in ("MM", "ZO") and d in ("MM", "ZO")):
                return False
    return True


def _request_for(cat, value):
    R = requests()
    if cat in ("absorption", "elimination"):
        if not isinstance(value, tuple) or len(value) != 1:
            return None
        value = value[0]
    for n, (c_, v, _, _) in R.items():
        if c_ == cat and v == value:
            return n
    return None


def _coupled(cat, other, name):
    """Category pairs that the documentation couples: changing one legitimately changes the other's detector."""
    # transit compartments and lag time exclude each other's meaning for absorption delay; setting the absorption to
    # INST/ZO removes the depot and with it transits; transits need a depot (absorption becomes FO)
    pairs = {("absorption", "transits"), ("transits", "absorption"), ("absorption", "lagtime"), ("transits", "lagtime"),
             ("lagtime", "transits")}
    return (cat, other) in pairs


_HIST = []


def _mech(name):
    """Mechanism key from the request and the feature state it was applied to (history of this sequence)."""
    hist = _HIST
    R = requests()
    cat = R[name][0]
    # the state before the request under judgement is the last history entry whose request == name
    det_b, sh_b = None, None
    for n, d, sh in reversed(hist):
        if n == name:
            det_b, sh_b = d, sh
            break
    no_depot = lambda sh: sh is not None and not sh.get("has_depot", True)  # noqa: E731
    ntrans = lambda d, sh: max(d.get("transits") if isinstance(d.get("transits"), int) else 0,  # noqa: E731
                               (sh or {}).get("transits", 0) or 0)
    # K1: a single transit compartment was requested on a model without depot somewhere in this sequence
    for n, d, sh in hist:
        if n == "TR_1" and no_depot(sh):
            return "C08/single-transit-on-depotless-model"
    if det_b is None:
        return None
    if cat == "absorption" and ntrans(det_b, sh_b) > 0:
        return "C08/absorption-request-with-transits"
    if name == "LAG_OFF" and ntrans(det_b, sh_b) > 0:
        return "C08/remove-lag-time-with-transits"
    if name == "ABS_INST" and det_b.get("absorption") == ("SEQ-ZO-FO",):
        return "C08/inst-absorption-on-seq-model-keeps-depot"
    if cat == "transits":
        # transits re-added after they had been removed from a model that had them (or the reversal TR_0 -> TR_n)
        had = any(ntrans(d, sh) > 0 for n, d, sh in hist)
        removed = any(n == "TR_0" for n, d, sh in hist) or name == "TR_0"
        if had and removed:
            return "C08/transit-readd-rate-name-collision"
    return None


def _key_total(name, applied, e, model):
    return _mech(name)


def _key_det(name, applied, model):
    return _mech(name)


def _key_other(name, other, applied):
    return _mech(name)


def _key_shape(name, applied):
    return _mech(name)


def _key_idem(name, applied):
    return _mech(name)


def _key_rev(name, applied):
    return _mech(name)
