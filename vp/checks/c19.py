"""C19 Ranking, selection criteria and result statistics follow their definitions.

Two families of cases:

* ranking cases: a candidate set (<= 8 models from a pool of structurally different example models, cheaply
  varied by fixing parameters / degenerate omegas / subsetting the dataset), synthetic ModelfitResults, a random
  strictness expression of the documented grammar, a rank type, cut-off, penalties and parent map.  The real
  calculate_aic / calculate_bic / lrt.* / is_strictness_fulfilled / rank_models / summarize_tool /
  create_results / summarize_modelfit_results_from_entries / summarize_errors_from_entries are run and compared
  with the reference computations of vp.gen.results.
* statistic cases: synthetic replicate estimate vectors / iOFV tables / eta tables through the real
  bootstrap, cdd and simeval `calculate_results`, calculate_eta_shrinkage, calculate_individual_shrinkage and
  se_delta_method, compared with the defining formulas in numpy.
"""
from __future__ import annotations

import math
import os

import numpy as np

from vp.farm import Case, fp_of
from vp.gen import results as R

PROP = "C19"
LEVEL = "exploration"
RULE = (
    "2/3 ranking cases: base + 0..7 candidates drawn from a pool of 38 structurally different models "
    "(pheno / create_basic_pk_model + add_peripheral_compartment, add_iiv, add_iov, error models, covariates, "
    "elimination, absorption, a population parameter shared by an eta-carrying and an eta-free individual parameter), varied per case by fixed parameters, omegas fixed to 0, dataset subsets and an "
    "MDV/EVID column; OFVs on a 0.25 grid with ties and NaN, minimisation flags, termination causes, sigdigs, "
    "RSEs, gradients, estimates near bounds, covariance matrices, logs; rank types ofv/aic/bic(4)/lrt, "
    "cut-offs None/scalar/tuple, penalties, parent maps, random strictness expressions. 1/3 statistic cases: "
    "2-50 replicate vectors / tables with NaNs, constant columns, permuted label order. A case is distinct by "
    "the fingerprint of its full rendered input; a ranking case is non-trivial if it has >= 3 models and at "
    "least one of: an excluded model, a tie, a cut-off or LRT in play; a statistic case if it has >= 3 "
    "replicates."
)
ASSUMPTIONS = [
    "AIC = OFV + 2*(number of non-fixed parameters); BIC variants as in the calculate_bic docstring with "
    "n_individuals = distinct IDs and n_observations = records with MDV==0 (else EVID==0, else AMT==0)",
    "mixed BIC categorisation (not spelled out in the docs): estimated variance parameters of non-degenerate etas "
    "and estimated population parameters of individual parameters carrying an eta are 'random', estimated "
    "population parameters of eta-free individual parameters and residual error parameters are 'fixed'; judged "
    "only when two granularities of 'individual parameter' agree and no eta enters the error model directly",
    "LRT: df = difference in the number of ESTIMATED (non-fixed) parameters child - parent; cut-off "
    "chi2.isf(alpha, df) for df>0, 0 for df=0, -chi2.isf(alpha, -df) for df<0; accepted iff parent_ofv - "
    "child_ofv >= cut-off; tuple cutoff = (alpha if df>=0, alpha if df<0); LRT with cutoff=None is not judged "
    "for eligibility (default alpha undocumented)",
    "non-LRT cut-off (docs/modelsearch.rst: 'not rank candidates with dOFV < cutoff', 'exclude models that are "
    "below cutoff'): a candidate is excluded iff value(base) - value(candidate) < cutoff; the base model is never "
    "excluded by the cut-off; when the base model itself fails strictness the effect of a cut-off is not judged",
    "ties share a rank; both competition (1,1,3) and dense (1,1,2) numbering are accepted; values closer than "
    "1e-9 relative but not bit-identical may or may not tie",
    "a model is ranked only if its rank value is finite (NaN and +-inf objective values are never ranked)",
    "strictness: numeric criteria over several parameters use the all-quantifier ('all parameters must have an "
    "RSE smaller than 0.4'); '!=' over several values, empty selections, a NaN gradient of another parameter "
    "kind, and criteria whose attribute is missing are not judged",
    "bootstrap/simeval/shrinkage standard deviations and variances: ddof is undocumented, ddof=1 (pandas) and "
    "ddof=0 (numpy) are both accepted; NaN entries may be skipped (pandas) or propagate (numpy)",
    "bootstrap percentiles: numpy/pandas 'linear' interpolation and the literal formula of docs/bootstrap.rst "
    "(x0 + (x1-x0)*frac(n*p), numpy 'interpolated_inverted_cdf') are both accepted",
    "cook scores / jackknife: compared at relative 1e-7 (a linear solve against a covariance matrix with "
    "condition number <= 1e4); singular or indefinite matrices are not judged",
    "best model of create_results: any model sharing rank 1; not judged when nothing is ranked",
]
MIN_NONTRIVIAL = {"quick": 1500, "thorough": 15000}
REQUIRED_MONITORS = [
    "aic", "bic_fixed", "bic_random", "bic_iiv", "bic_mixed", "lrt_cutoff", "lrt_p_value", "lrt_test",
    "lrt_best_of", "strictness", "rank_models", "rank_models_excluded_model", "rank_models_tie",
    "summarize_tool", "best_model", "summarize_modelfit", "summarize_errors",
    "bootstrap_statistics", "bootstrap_distribution", "bootstrap_ofvs", "cdd_cook", "cdd_jackknife",
    "cdd_covratio", "cdd_dofv", "simeval", "eta_shrinkage", "individual_shrinkage", "delta_method",
]
BATCH_TIMEOUT = {"quick": 1500, "thorough": 6 * 3600}


def n_cases(tier):
    return 3300 if tier == "quick" else 40000


def setup(tier):
    import pharmpy.modeling  # noqa
    import pharmpy.tools.run  # noqa
    import pharmpy.tools.common  # noqa
    import pharmpy.tools.bootstrap.results  # noqa
    import pharmpy.tools.cdd.results  # noqa
    import pharmpy.tools.simeval.results  # noqa
    import scipy.stats  # noqa
    import sympy  # noqa

    R.build_pool(os.environ["VERIF_SCRATCH"])


def run_case(rng, idx, tier):
    c = Case()
    if idx % 3 == 2:
        stat_case(c, rng)
    else:
        ranking_case(c, rng)
    return c


# ======================================================================================================
# ranking cases
# ======================================================================================================
STRATA = [
    ("A", 0.815), ("cutoff_eq", 0.03), ("lrt_fixed", 0.035), ("strict_none", 0.015), ("none_attr", 0.02),
    ("nan_grad", 0.025), ("inf", 0.02), ("bic_notype", 0.01), ("rse_combo", 0.02),
    ("parent_models_dup", 0.01),
]


def pick_stratum(rng):
    t = rng.random()
    for name, p in STRATA:
        t -= p
        if t <= 0:
            return name
    return "A"


def gen_names(rng, n):
    style = rng.randrange(4)
    if style == 0:
        pool = [f"run{i}" for i in range(1, 30)]
    elif style == 1:
        pool = [f"modelsearch_run{i}" for i in (1, 2, 3, 10, 11, 12, 20, 21, 100)]
    elif style == 2:
        pool = ["a", "B", "c", "D", "e10", "e9", "Z", "base2", "m_1", "m-2"]
    else:
        pool = [f"{i}" for i in (1, 2, 3, 10, 11, 20, 100, 101)] + ["x1", "x2"]
    names = rng.sample(pool, n)
    base = rng.choice(["base", "input", "run0", "start_model"])
    return [base] + names


def vary_model(rng, model, info0, ops):
    """Apply cheap per-case variations; ops is a list of tuples (recorded in the sample)."""
    import pharmpy.modeling as pm

    for op in ops:
        if op[0] == "fix":
            model = pm.fix_parameters(model, list(op[1]))
        elif op[0] == "fix0":
            model = pm.fix_parameters_to(model, {op[1]: 0})
    return model


def gen_ops(rng, model, allow_fix):
    ops = []
    if not allow_fix:
        return ops
    in_block = {p for d in model.random_variables if len(d.parameter_names) > 1 for p in d.parameter_names}
    names = [p.name for p in model.parameters if not p.fix and p.name not in in_block]  # NONMEM cannot fix part of a block
    r = rng.random()
    if r < 0.25 and len(names) > 2:
        ops.append(("fix", tuple(sorted(rng.sample(names, rng.choice([1, 1, 2]))))))
    r = rng.random()
    if r < 0.12:
        uni = [d for d in model.random_variables.etas if len(d.names) == 1]
        if uni:
            d = rng.choice(uni)
            ops.append(("fix0", d.parameter_names[0]))
    return ops


def gen_dataset_variation(rng):
    r = rng.random()
    if r < 0.35:
        return None
    n_keep = rng.randint(3, 59)
    keep = sorted(rng.sample(range(1, 60), n_keep))
    col = None
    r = rng.random()
    if r < 0.25:
        col = ("MDV", rng.randrange(10**6))
    elif r < 0.35:
        col = ("EVID", None)
    return {"keep": keep, "col": col}


def apply_dataset_variation(model, var):
    from pharmpy.model import ColumnInfo

    if var is None:
        return model
    df = model.dataset
    df = df[df["ID"].isin(var["keep"])].reset_index(drop=True)
    di = model.datainfo
    if var["col"] is not None:
        kind, seed = var["col"]
        df = df.copy()
        if kind == "MDV":
            rs = np.random.RandomState(seed)
            mdv = (df["AMT"].to_numpy() != 0).astype(float)
            miss = rs.random_sample(len(df)) < 0.15
            mdv = np.where(miss, 1.0, mdv)
            if (mdv == 0).sum() < 2:
                mdv[:] = (df["AMT"].to_numpy() != 0).astype(float)
            df["MDV"] = mdv
            di = di + ColumnInfo.create("MDV", type="mdv")
        else:
            df["EVID"] = (df["AMT"].to_numpy() != 0).astype(int)
            di = di + ColumnInfo.create("EVID", type="event")
    return model.replace(dataset=df, datainfo=di)


OFV_STEPS = [0, 0, 0.25, 0.5, 1, 2, 3, 3.75, 4, 5, 6.5, 8, 12, 20, 40, -0.25, -1, -3, -10]


def ranking_case(c, rng):
    import pharmpy.modeling as pm
    from pharmpy.tools.run import is_strictness_fulfilled, rank_models

    stratum = pick_stratum(rng)
    fam = rng.choice(["P", "P", "B"])
    pool = [(k, m) for k, m in R.POOL if (k[0] == "P") == (fam == "P")]
    n = rng.choice([0, 1, 2, 3, 3, 4, 4, 5, 5, 6, 7, 7])
    rank_type = rng.choice(["ofv", "ofv", "aic", "aic", "bic", "bic", "bic", "bic", "lrt", "lrt"])
    if stratum == "cutoff_eq":
        rank_type = rng.choice(["ofv", "aic"])
        n = max(n, 2)
    if stratum == "lrt_fixed":
        rank_type = "lrt"
        n = max(n, 2)
    if stratum == "parent_models_dup":
        rank_type = "lrt"
        n = max(n, 3)
    if stratum == "bic_notype":
        rank_type = "bic"
    bic_type = rng.choice(["fixed", "random", "iiv", "mixed", "mixed"]) if rank_type == "bic" else None
    if stratum == "bic_notype":
        bic_type = "mixed"  # no bic_type is passed in this stratum: the documented default of calculate_bic applies

    picks = [rng.choice(pool) for _ in range(n + 1)]
    if stratum == "parent_models_dup":
        picks[2] = picks[1]
    names = gen_names(rng, n)
    dsvar = gen_dataset_variation(rng)
    allow_fix = not (rank_type == "lrt" and stratum != "lrt_fixed")
    if stratum == "parent_models_dup":
        allow_fix = False
    if rank_type == "lrt" and stratum != "lrt_fixed":
        # stratum A: LRT between models with the same number of fixed parameters (P11, P17 have one)
        picks = [p if p[0] not in ("P11", "P17") else pool[0] for p in picks]
    models, infos, descr = [], [], []
    for (key, m), name in zip(picks, names):
        ops = gen_ops(rng, m, allow_fix)
        if stratum == "lrt_fixed" and not ops and rng.random() < 0.6:
            blk = {p for d in m.random_variables if len(d.parameter_names) > 1 for p in d.parameter_names}
            nf = [p.name for p in m.parameters if not p.fix and p.name not in blk]
            ops = [("fix", (rng.choice(nf),))]
        m = vary_model(rng, m, None, ops)
        m = apply_dataset_variation(m, dsvar)
        m = m.replace(name=name)
        models.append(m)
        infos.append(R.ModelInfo(m))
        descr.append({"name": name, "pool": key, "ops": [list(o) for o in ops]})

    # ---- synthetic results
    profile = {"with_rse": rng.random() < 0.96, "with_cov": rng.random() < 0.93, "odd": rng.random() < 0.1}
    if stratum == "nan_grad":
        profile["p_nan_grad_nontheta"] = 0.6
    if stratum in ("none_attr", "rse_combo"):
        profile["with_rse"] = profile["with_cov"] = True
    base_ofv = rng.choice([100.0, 587.25, -42.5, 1000.0, 0.0])
    recs = []
    for i, info in enumerate(infos):
        if i == 0:
            ofv = base_ofv
        elif recs and rng.random() < 0.15:
            ofv = recs[rng.randrange(len(recs))]["ofv"]
        else:
            ofv = base_ofv - rng.choice(OFV_STEPS)
        if rng.random() < (0.04 if i == 0 else 0.08):
            ofv = float("nan")
        if stratum == "inf" and rng.random() < 0.4:
            ofv = rng.choice([float("inf"), float("-inf")])
        recs.append(R.gen_result_record(rng, info, ofv, profile))
    if stratum == "inf" and not any(math.isinf(r["ofv"]) for r in recs):
        recs[rng.randrange(len(recs))]["ofv"] = float("inf")

    # ---- strictness
    allow = None
    r = rng.random()
    if stratum == "strict_none":
        ast, sexpr = None, None
    elif r < 0.1:
        ast, sexpr = ("name", "minimization_successful"), "minimization_successful"
    elif r < 0.2:
        ast = ("or", ("name", "minimization_successful"),
               ("and", ("name", "rounding_errors"), ("cmp", "sigdigs", ">=", "0.1", False)))
        sexpr = "minimization_successful or (rounding_errors and sigdigs >= 0.1)"
    elif r < 0.24:
        ast, sexpr = "empty", ""
    else:
        if stratum == "nan_grad":
            ast = ("not", ("name", rng.choice(["final_zero_gradient_omega", "final_zero_gradient_sigma"])))
            if rng.random() < 0.5:
                ast = ("and", ("name", "minimization_successful"), ast)
        elif stratum == "rse_combo":
            a1 = ("cmp", "rse", rng.choice(["<", "<="]), rng.choice(["0.5", "1", "2"]), False)
            a2 = ("cmp", rng.choice(["rse_theta", "rse_omega", "rse_sigma"]), rng.choice(["<", "<="]), rng.choice(["0.5", "1"]), False)
            ast = (rng.choice(["and", "or"]), a1, a2) if rng.random() < 0.5 else ("and", ("name", "minimization_successful"), ("and", a2, a1))
        else:
            # 'rse' together with 'rse_theta/omega/sigma' is a listed finding: stratum A uses one or the other
            drop = {"rse"} if rng.random() < 0.5 else {"rse_theta", "rse_omega", "rse_sigma"}
            if not profile["with_rse"]:
                drop = {"rse_theta", "rse_omega", "rse_sigma"}  # a missing RSE table with these is a listed finding
            allow = [x for x in R.BOOL_CRIT + R.NUM_CRIT if x not in drop]
            ast = R.gen_strictness(rng, allow=allow)
        sexpr = R.render_strictness(ast, rng, full_parens=rng.random() < 0.3)
    if stratum == "none_attr":
        which = rng.choice(["warnings", "gradients", "rse_kind", "estimates"])
        tgt = rng.randrange(len(recs))
        if which == "warnings":
            recs[tgt]["override"] = {"warnings": None}
            if ast in ("empty", None) or sexpr == "":
                ast, sexpr = ("name", "minimization_successful"), "minimization_successful"
        elif which == "gradients":
            recs[tgt]["override"] = {"gradients": None}
            ast = ("and", ("name", "minimization_successful"), ("not", ("name", "final_zero_gradient_theta")))
            sexpr = R.render_strictness(ast)
        elif which == "rse_kind":
            recs[tgt]["override"] = {"relative_standard_errors": None}
            ast = ("and", ("name", "minimization_successful"), ("cmp", "rse_theta", "<", "0.5", False))
            sexpr = R.render_strictness(ast)
        else:
            recs[tgt]["override"] = {"parameter_estimates": None, "standard_errors": None}
            ast = ("and", ("name", "minimization_successful"), ("not", ("name", "estimate_near_boundary")))
            sexpr = R.render_strictness(ast)
        none_attr = (which, tgt)
    else:
        none_attr = None

    # ---- cut-off, penalties, parent map
    penalties = None
    if rank_type != "lrt" and rng.random() < 0.4:
        penalties = [rng.choice([0.0, 0.5, 1.0, 2.0, 2.5, 4.0, 7.5]) for _ in range(n + 1)]
    if rank_type == "lrt":
        r = rng.random()
        if r < 0.05:
            cutoff = None
        elif r < 0.6:
            cutoff = rng.choice([0.05, 0.01, 0.001, 0.1])
        else:
            cutoff = rng.choice([(0.05, 0.01), (0.01, 0.001), (0.1, 0.05), (0.001, 0.05)])
    else:
        cutoff = None if rng.random() < 0.4 else rng.choice([3.84, 6.63, 0.05, 1.3, -2.1, 10.83, 0.7])
    parents = None
    if n > 0 and (rank_type == "lrt" and rng.random() < 0.75 or rank_type != "lrt" and rng.random() < 0.1):
        parents = {}
        for i in range(1, n + 1):
            parents[names[i]] = names[rng.randrange(0, i)] if rng.random() < 0.6 else names[0]
    parent_as_models = parents is not None and rng.random() < 0.4
    # Model.__eq__/__hash__ ignore the name: two structurally identical candidates are one dict key (listed finding)
    struct = [(d["pool"], repr(d["ops"])) for d in descr]
    dup_children = len(set(struct[1:])) != len(struct[1:]) or len(set(models[1:])) != len(models[1:])
    if stratum == "parent_models_dup":
        if parents is None:
            parents = {names[i]: names[rng.randrange(0, i)] for i in range(1, n + 1)}
        parent_as_models = True
    elif dup_children:
        parent_as_models = False

    results = [R.to_modelfit_results(d) for d in recs]
    views = [R.ResultView(d) for d in recs]
    for v, d in zip(views, recs):
        ov = d.get("override", {})
        if "gradients" in ov:
            v.gradients = None
        if "relative_standard_errors" in ov:
            v.rse = None
        if "parameter_estimates" in ov:
            v.estimates = None

    # ---- reference strictness per model
    strict = []  # True / False / None (not judged)
    strict_why = []
    for info, v in zip(infos, views):
        s, why = ref_strict(ast, info, v)
        strict.append(s)
        strict_why.append(why)

    # ---- reference values
    values = []
    for info, d in zip(infos, recs):
        values.append(ref_value(info, d["ofv"], rank_type, bic_type))
    mixed_ambiguous = rank_type == "bic" and bic_type == "mixed" and any(i.mixed["ambiguous"] for i in infos)
    pen = penalties or [0.0] * (n + 1)
    pvalues = [v + p for v, p in zip(values, pen)]

    if stratum == "cutoff_eq" and strict[0] and math.isfinite(pvalues[0]):
        cands = [pvalues[0] - pvalues[i] for i in range(1, n + 1) if strict[i] and math.isfinite(pvalues[i])]
        if cands:
            cutoff = rng.choice(cands)

    sample = {
        "kind": "ranking", "stratum": stratum, "models": descr, "dataset": _ds_descr(dsvar),
        "results": [_rec_descr(d) for d in recs], "strictness": sexpr, "rank_type": rank_type,
        "bic_type": bic_type, "cutoff": cutoff, "penalties": penalties, "parents": parents,
        "parent_as_models": parent_as_models,
    }
    c.sample = sample
    c.fp = fp_of(sample)

    # ================= M1: information criteria on two models
    for i in sorted(set([0] + ([rng.randrange(len(models))] if models else []))):
        check_criteria(c, models[i], infos[i], recs[i]["ofv"] if recs[i]["ofv"] == recs[i]["ofv"] else 123.25, descr[i])

    # ================= M2: LRT primitives on up to two pairs
    if n >= 1:
        for _ in range(2):
            i, j = rng.randrange(n + 1), rng.randrange(n + 1)
            if i != j and (stratum == "lrt_fixed" or infos[i].n_fixed == infos[j].n_fixed):
                check_lrt_primitives(c, rng, models, infos, recs, i, j, descr, mixed_fixed=stratum == "lrt_fixed")

    # ================= M3: strictness per model
    strict_refused = False
    seen_keys = set()
    for i, (m, res) in enumerate(zip(models, results)):
        if sexpr is None:
            break
        if seen_keys:
            break  # one report of a listed mechanism per case is enough
        try:
            got = is_strictness_fulfilled(m, res, sexpr)
        except ValueError as e:
            if strict_why[i] == "refusal":
                c.hit("strictness_refusal")
                strict_refused = True
                continue
            key = None
            if "truth value of a Series" in str(e) and _rse_combo(ast):
                key = "C19/strictness-rse-shadowed-by-rse_kind"
                seen_keys.add(key)
            c.violate(key, f"is_strictness_fulfilled({sexpr!r}) raised ValueError: {e}", {"model": descr[i], "result": _rec_descr(recs[i])})
            continue
        except Exception as e:
            key = None
            if none_attr is not None and none_attr[1] == i:
                key = "C19/strictness-missing-attribute-crash"
            c.violate(key, f"is_strictness_fulfilled({sexpr!r}) raised {type(e).__name__}: {e} "
                           f"[{none_attr[0] if none_attr else ''} is None]", {"model": descr[i], "result": _rec_descr(recs[i])})
            continue
        if not isinstance(got, (bool, np.bool_)) and got is not None:
            key = "C19/strictness-rse-shadowed-by-rse_kind" if _rse_combo(ast) else None
            if key:
                seen_keys.add(key)
            c.violate(key, f"is_strictness_fulfilled({sexpr!r}) returned a {type(got).__name__} instead of a bool",
                      {"model": descr[i], "result": _rec_descr(recs[i])})
            continue
        if strict[i] is None:
            c.hit("not_judged:strictness:" + strict_why[i])
            continue
        c.hit("strictness")
        if bool(got) != strict[i]:
            key = None
            if stratum == "nan_grad" and _nan_nontheta_grad(infos[i], views[i]):
                key = "C19/zero-gradient-nan-looks-at-thetas"
            c.violate(key, f"is_strictness_fulfilled({sexpr!r}) = {got!r}, reference {strict[i]}",
                      {"model": descr[i], "result": _rec_descr(recs[i])})

    # ================= M4: rank_models
    if rank_type == "lrt":
        parent_idx = [None] + [names.index(parents[names[i]]) if parents else 0 for i in range(1, n + 1)]
    else:
        parent_idx = [None] * (n + 1)
    kwargs = {}
    if bic_type is not None and stratum != "bic_notype":
        kwargs["bic_type"] = bic_type
    pd_arg = parents
    if parents is not None and parent_as_models:
        byname = dict(zip(names, models))
        pd_arg = {byname[k]: byname[v] for k, v in parents.items()}

    def call_rank(strictness_arg, res_list):
        nonlocal pd_arg
        return rank_models(models[0], res_list[0], models[1:], res_list[1:], parent_dict=pd_arg,
                           strictness=strictness_arg, rank_type=rank_type, cutoff=cutoff, penalties=penalties,
                           **kwargs)

    expect = ref_ranking(infos, recs, strict, pvalues, rank_type, cutoff, parent_idx, variant=None)
    judged = True
    if mixed_ambiguous:
        c.hit("not_judged:rank:mixed-bic-categorisation")
        judged = False
    if any(s is None for s in strict):
        judged = False
    df = None
    try:
        df = call_rank(sexpr, results)
    except ValueError as e:
        if strict_refused or any(w == "refusal" for w in strict_why):
            c.hit("rank_models_refusal")
            c.refusal = "ValueError"
        elif "truth value of a Series" in str(e) and _rse_combo(ast):
            c.violate("C19/strictness-rse-shadowed-by-rse_kind", f"rank_models(strictness={sexpr!r}) raised ValueError: {e}", sample)
        elif stratum == "bic_notype" and "Unknown `type`" in str(e):
            c.violate("C19/rank-bic-without-bic_type", f"rank_models(rank_type='bic') without bic_type raised ValueError: {e}", sample)
        else:
            c.violate(None, f"rank_models raised ValueError: {e}", sample)
    except Exception as e:
        key = None
        if stratum == "strict_none":
            try:
                call_rank("", results)
                key = "C19/rank-strictness-none-crash"
            except Exception:
                pass
        elif stratum == "parent_models_dup":
            pd_arg = parents
            try:
                call_rank(sexpr, results)
                key = "C19/parent-dict-model-keys-collapse"
            except Exception:
                pass
        elif none_attr is not None:
            try:
                call_rank(sexpr, [R.to_modelfit_results({**d, "override": {}}) for d in recs])
                key = "C19/strictness-missing-attribute-crash"
            except Exception:
                pass
        c.violate(key, f"rank_models raised {type(e).__name__}: {e}", sample)
    if df is not None and judged:
        verdict = compare_ranking(c, df, names, expect, rank_type, pvalues)
        if verdict is not None:
            key = None
            for variant, k in (("cutoff_le", "C19/cutoff-equal-delta-excluded"),
                               ("df_all", "C19/lrt-df-counts-fixed-parameters"),
                               ("inf_ranked", "C19/nonfinite-rank-value-ranked")):
                alt = ref_ranking(infos, recs, strict, pvalues, rank_type, cutoff, parent_idx, variant=variant)
                if alt != expect and compare_ranking(None, df, names, alt, rank_type, pvalues) is None:
                    key = k
                    break
            if key is None and stratum == "inf":
                key = "C19/nonfinite-rank-value-ranked"
            if key is None and stratum == "nan_grad":
                for v in views:
                    v.grad_variant = True
                strict2 = [ref_strict(ast, i_, v_)[0] for i_, v_ in zip(infos, views)]
                for v in views:
                    v.grad_variant = False
                if all(s_ is not None for s_ in strict2):
                    alt = ref_ranking(infos, recs, strict2, pvalues, rank_type, cutoff, parent_idx)
                    if compare_ranking(None, df, names, alt, rank_type, pvalues) is None:
                        key = "C19/zero-gradient-nan-looks-at-thetas"
            if key is None and stratum == "parent_models_dup":
                pd_arg = parents
                try:
                    if compare_ranking(None, call_rank(sexpr, results), names, expect, rank_type, pvalues) is None:
                        key = "C19/parent-dict-model-keys-collapse"
                except Exception:
                    pass
            c.violate(key, "rank_models: " + verdict, {"case": sample, "table": _df_descr(df), "expected": _exp_descr(names, expect, pvalues)})
    elif df is not None:
        c.hit("not_judged:rank_models")

    el = expect["eligible"]
    c.nontrivial = (n + 1) >= 3 and (
        any(e is False for e in el) or cutoff is not None or rank_type == "lrt"
        or len({pvalues[i] for i in range(n + 1) if el[i]}) < sum(1 for e in el if e)
    )

    # ================= M5: tool level: summarize_tool / create_results (best model)
    if stratum in ("A", "cutoff_eq", "lrt_fixed") and sexpr is not None and rng.random() < 0.6:
        check_tool_level(c, rng, models, results, infos, recs, strict, pvalues, names, sexpr, rank_type,
                         bic_type, cutoff, penalties, judged, sample)

    # ================= M6: summaries
    if stratum == "A":
        check_summaries(c, rng, models, results, recs, names)


def _rse_combo(ast):
    if not isinstance(ast, tuple):
        return False
    names = R.names_in(ast)
    return "rse" in names and bool(names & {"rse_theta", "rse_omega", "rse_sigma"})


def _nan_nontheta_grad(info, v):
    return v.gradients is not None and any(val != val and info.kind.get(n) != "theta" for n, val in v.gradients)


def _ds_descr(var):
    if var is None:
        return None
    return {"keep_ids": var["keep"], "extra_column": var["col"]}


def _rec_descr(d):
    out = {k: d[k] for k in ("ofv", "minimization_successful", "termination_cause", "significant_digits",
                             "rse", "estimates", "gradients", "warnings")}
    out["log"] = [cat for cat, _ in d["log"]]
    out["cov_diag"] = None if d["cov"] is None else [round(float(x), 10) for x in np.diag(np.asarray(d["cov"]))]
    if "override" in d:
        out["override"] = {k: repr(v) for k, v in d["override"].items()}
    return out


def _df_descr(df):
    return {str(k): [repr(x) for x in row] for k, row in zip(df.index, df.to_numpy().tolist())}


def _exp_descr(names, expect, pvalues):
    return {n: {"eligible": e, "value": repr(v), "rank": expect["rank"].get(i)}
            for i, (n, e, v) in enumerate(zip(names, expect["eligible"], pvalues))}


def ref_strict(ast, info, view):
    """(True/False/None, why)."""
    if ast is None:
        # strictness=None: 'no strictness criteria are applied' (docs/amd.rst); a NaN OFV still cannot be ranked
        return (view.ofv == view.ofv), "none"
    if ast == "empty":
        return (view.ofv == view.ofv), "empty"
    if view.ofv != view.ofv:
        return False, "nan-ofv"
    names = R.names_in(ast)
    if ("rse" in names and view.rse is None) or ("condition_number" in names and view.cov is None):
        return None, "refusal"
    try:
        return R.eval_strictness(ast, info, view), "ok"
    except R.Unjudged as e:
        return None, str(e)
    except R.Refusal:
        return None, "refusal"


def ref_value(info, ofv, rank_type, bic_type):
    if rank_type in ("ofv", "lrt"):
        return ofv
    if rank_type == "aic":
        return R.ref_aic(info, ofv)
    return R.ref_bic(info, ofv, bic_type)


def ref_ranking(infos, recs, strict, pvalues, rank_type, cutoff, parent_idx, variant=None):
    """eligible: list of True/False/None; rank: competition ranks of the definitely eligible (valid if no None)."""
    n = len(infos)
    fin = (lambda v: v == v) if variant == "inf_ranked" else math.isfinite
    eligible = []
    ref_ok = bool(strict[0]) and pvalues[0] == pvalues[0]
    for i in range(n):
        if strict[i] is None:
            eligible.append(None)
            continue
        if not strict[i] or not fin(pvalues[i]):
            eligible.append(False)
            continue
        if i == 0:
            eligible.append(True)
            continue
        if rank_type == "lrt":
            p = parent_idx[i]
            if variant == "df_all":
                df = infos[i].k_all - infos[p].k_all
            else:
                df = infos[i].k - infos[p].k
            if cutoff is None:
                eligible.append(None)
                continue
            alpha = (cutoff[0] if df >= 0 else cutoff[1]) if isinstance(cutoff, tuple) else cutoff
            eligible.append(bool(R.ref_lrt_test(df, recs[p]["ofv"], recs[i]["ofv"], alpha)))
        elif cutoff is not None:
            if not ref_ok or not math.isfinite(pvalues[0]):
                eligible.append(None)
                continue
            delta = pvalues[0] - pvalues[i]
            if variant == "cutoff_le":
                eligible.append(not (delta <= cutoff))
            elif delta != cutoff and abs(delta - cutoff) <= 1e-9 * max(1.0, abs(cutoff)):
                eligible.append(None)
            else:
                eligible.append(not (delta < cutoff))
        else:
            eligible.append(True)
    return {"eligible": eligible, "rank": R.rank_reference(pvalues, [bool(e) for e in eligible]),
            "ref": pvalues[0] if ref_ok else float("nan")}


def compare_ranking(c, df, names, expect, rank_type, pvalues):
    """Returns None if the table agrees with the reference, else a message.  c=None: no counting."""
    rt = "ofv" if rank_type == "lrt" else rank_type
    cols = list(df.columns)
    if cols != [f"d{rt}", rt, "rank"]:
        return f"columns {cols}"
    if sorted(map(str, df.index)) != sorted(names) or len(df.index) != len(names):
        return f"index {list(df.index)} is not the set of models {names}"
    el = expect["eligible"]
    got_rank = {}
    for i, name in enumerate(names):
        r = df.loc[name, "rank"]
        ranked = not (r != r)
        got_rank[i] = float(r) if ranked else None
        if el[i] is None:
            continue
        if ranked and not el[i]:
            return f"{name} is ranked ({r}) but is not eligible (value {pvalues[i]!r})"
        if not ranked and el[i]:
            return f"{name} is eligible (value {pvalues[i]!r}) but is not ranked"
    ranked_idx = [i for i in range(len(names)) if got_rank[i] is not None]
    if c is not None:
        c.hit("rank_models")
        if any(e is False for e in el):
            c.hit("rank_models_excluded_model")
    # values of ranked models
    for i in ranked_idx:
        v = df.loc[names[i], rt]
        if not R.close(v, pvalues[i]):
            return f"{names[i]}: column {rt} = {v!r}, reference {pvalues[i]!r}"
        if math.isfinite(expect["ref"]) and math.isfinite(pvalues[i]):
            d = df.loc[names[i], f"d{rt}"]
            if not R.close(d, expect["ref"] - pvalues[i], scale=max(abs(expect["ref"]), abs(pvalues[i]), 1.0)):
                return f"{names[i]}: column d{rt} = {d!r}, reference {expect['ref'] - pvalues[i]!r}"
    # order of ranks vs values
    tie_seen = False
    for a in ranked_idx:
        for b in ranked_idx:
            if a >= b:
                continue
            va, vb = pvalues[a], pvalues[b]
            ra, rb = got_rank[a], got_rank[b]
            if va == vb:
                tie_seen = True
                if ra != rb:
                    return f"{names[a]} and {names[b]} have the same value {va!r} but ranks {ra} and {rb}"
            elif math.isfinite(va) and math.isfinite(vb) and abs(va - vb) <= 1e-9 * max(1.0, abs(va), abs(vb)):
                continue
            elif (va < vb) != (ra < rb) or ra == rb:
                return f"{names[a]} (value {va!r}, rank {ra}) and {names[b]} (value {vb!r}, rank {rb}) are ordered against their values"
    if c is not None and tie_seen:
        c.hit("rank_models_tie")
    # numbering: competition or dense, starting at 1
    if ranked_idx and all(e is not None for e in el):
        vals = sorted({pvalues[i] for i in ranked_idx})
        near = any(abs(a - b) <= 1e-9 * max(1.0, abs(a), abs(b)) for a, b in zip(vals, vals[1:]) if math.isfinite(a) and math.isfinite(b))
        if not near:
            comp = {i: 1 + sum(1 for j in ranked_idx if pvalues[j] < pvalues[i]) for i in ranked_idx}
            dense = {i: 1 + vals.index(pvalues[i]) for i in ranked_idx}
            g = {i: got_rank[i] for i in ranked_idx}
            if g != comp and g != dense:
                return f"ranks {[(names[i], g[i]) for i in ranked_idx]} are neither competition nor dense ranks of the values"
            if c is not None:
                c.hit("observed:competition_ranking" if g == comp else "observed:dense_ranking")
    # row order: ranked rows first in non-decreasing rank, unranked rows after
    seq = [df.loc[k, "rank"] for k in df.index]
    seen_nan = False
    prev = -1
    for r in seq:
        if r != r:
            seen_nan = True
            continue
        if seen_nan:
            return f"an unranked model is listed above a ranked one: rank column {seq}"
        if r < prev:
            return f"rows are not ordered by rank: {seq}"
        prev = r
    return None


# ------------------------------------------------------------------------------------------------------
def check_criteria(c, model, info, ofv, descr):
    import pharmpy.modeling as pm

    try:
        got = pm.calculate_aic(model, ofv)
        c.hit("aic")
        if not R.close(got, R.ref_aic(info, ofv)):
            c.violate(None, f"calculate_aic = {got!r}, reference OFV + 2*{info.k} = {R.ref_aic(info, ofv)!r}", descr)
    except Exception as e:
        c.violate(None, f"calculate_aic raised {type(e).__name__}: {e}", descr)
    for t in ("fixed", "random", "iiv", "mixed"):
        if t == "mixed" and info.mixed["ambiguous"]:
            c.hit("not_judged:bic_mixed:" + info.mixed["ambiguous"])
            continue
        try:
            got = pm.calculate_bic(model, ofv, type=t)
        except Exception as e:
            c.violate(None, f"calculate_bic(type={t}) raised {type(e).__name__}: {e}", descr)
            continue
        c.hit("bic_" + t)
        ref = R.ref_bic(info, ofv, t)
        if not R.close(got, ref):
            c.violate(None, f"calculate_bic(type={t}) = {got!r}, reference {ref!r} "
                            f"(k={info.k}, k_iiv={info.k_iiv}, n_ids={info.n_ids}, n_obs={info.n_obs}, mixed={info.mixed})", descr)
    # default type is 'mixed'
    if not info.mixed["ambiguous"]:
        try:
            got = pm.calculate_bic(model, ofv)
            c.hit("bic_default")
            if not R.close(got, R.ref_bic(info, ofv, "mixed")):
                c.violate(None, f"calculate_bic default = {got!r}, reference mixed {R.ref_bic(info, ofv, 'mixed')!r}", descr)
        except Exception as e:
            c.violate(None, f"calculate_bic() raised {type(e).__name__}: {e}", descr)


def check_lrt_primitives(c, rng, models, infos, recs, p, ch, descr, mixed_fixed=False):
    from pharmpy.modeling import lrt
    from pharmpy.workflows import ModelEntry

    alpha = rng.choice([0.05, 0.01, 0.001, 0.1, 0.5])
    df = infos[ch].k - infos[p].k
    df_all = infos[ch].k_all - infos[p].k_all
    key = "C19/lrt-df-counts-fixed-parameters" if df != df_all else None
    where = {"parent": descr[p], "child": descr[ch], "alpha": alpha}
    pofv, cofv = recs[p]["ofv"], recs[ch]["ofv"]
    if math.isinf(pofv) or math.isinf(cofv):
        return
    try:
        a = models[p] if rng.random() < 0.7 else ModelEntry.create(models[p])
        b = models[ch] if rng.random() < 0.7 else ModelEntry.create(models[ch])
        got = lrt.degrees_of_freedom(a, b)
        c.hit("lrt_df")
        if got != df:
            c.violate(key, f"lrt.degrees_of_freedom = {got}, difference in estimated parameters = {df} "
                           f"(all parameters incl. fixed: {df_all})", where)
        got = lrt.cutoff(models[p], models[ch], alpha)
        c.hit("lrt_cutoff")
        ref = R.ref_lrt_cutoff(df, alpha)
        if not R.close(got, ref):
            c.violate(key if R.close(got, R.ref_lrt_cutoff(df_all, alpha)) else None,
                      f"lrt.cutoff(alpha={alpha}) = {got!r}, reference {ref!r} for df={df}", where)
        if pofv == pofv and cofv == cofv:
            if df > 0:
                got = lrt.p_value(models[p], models[ch], pofv, cofv)
                c.hit("lrt_p_value")
                ref = R.ref_p_value(df, pofv, cofv)
                if not R.close(got, ref):
                    alt = R.ref_p_value(df_all, pofv, cofv) if df_all > 0 else float("nan")
                    c.violate(key if R.close(got, alt) else None,
                              f"lrt.p_value = {got!r}, reference chi2.sf({pofv - cofv}, {df}) = {ref!r}", where)
            else:
                c.hit("not_judged:p_value_nonpositive_df")
        got = lrt.test(models[p], models[ch], pofv, cofv, alpha)
        c.hit("lrt_test")
        ref = R.ref_lrt_test(df, pofv, cofv, alpha)
        if bool(got) != ref:
            c.violate(key if bool(got) == R.ref_lrt_test(df_all, pofv, cofv, alpha) else None,
                      f"lrt.test(parent_ofv={pofv}, child_ofv={cofv}, alpha={alpha}) = {got}, reference {ref} (df={df})", where)
        got = lrt.best_of_two(models[p], models[ch], pofv, cofv, alpha)
        c.hit("lrt_best_of")
        want = models[ch] if ref else models[p]
        if got is not want:
            c.violate(key if bool(got is models[ch]) == R.ref_lrt_test(df_all, pofv, cofv, alpha) else None,
                      f"lrt.best_of_two returned {got.name}, reference {want.name}", where)
        # best_of_many: children = all other models; the lowest finite OFV is tested against the parent
        others = [i for i in range(len(models)) if i != p and not math.isinf(recs[i]["ofv"])
                  and (mixed_fixed or infos[i].n_fixed == infos[p].n_fixed)]
        if others:
            ofvs = [recs[i]["ofv"] for i in others]
            got = lrt.best_of_many(models[p], [models[i] for i in others], pofv, ofvs, alpha)
            finite = [(o, k) for k, o in enumerate(ofvs) if o == o]
            if not finite:
                want_names = {models[p].name}
                any_key = None
            else:
                lo = min(o for o, _ in finite)
                want_names = set()
                any_key = None
                for o, k in finite:
                    if o == lo:
                        i = others[k]
                        d = infos[i].k - infos[p].k
                        ok = R.ref_lrt_test(d, pofv, o, alpha)
                        want_names.add(models[i].name if ok else models[p].name)
                        if infos[i].k_all - infos[p].k_all != d:
                            any_key = "C19/lrt-df-counts-fixed-parameters"
            c.hit("lrt_best_of")
            if got.name not in want_names:
                c.violate(any_key, f"lrt.best_of_many returned {got.name}, reference one of {sorted(want_names)}",
                          {**where, "ofvs": ofvs, "models": [descr[i] for i in others]})
    except Exception as e:
        c.violate(None, f"lrt primitive raised {type(e).__name__}: {e}", where)


def check_tool_level(c, rng, models, results, infos, recs, strict, pvalues, names, sexpr, rank_type, bic_type,
                     cutoff, penalties, judged, sample):
    from pharmpy.tools.common import ToolResults, create_results, summarize_tool
    from pharmpy.workflows import ModelEntry

    n = len(models) - 1
    if n == 0:
        return
    # parents at tool level: summarize_tool does not forward a parent map => the base model is every parent
    base_me = ModelEntry.create(models[0], modelfit_results=results[0])
    mes = [ModelEntry.create(m, parent=models[0], modelfit_results=r) for m, r in zip(models[1:], results[1:])]
    parent_idx = [None] + [0] * n
    expect = ref_ranking(infos, recs, strict, pvalues, rank_type, cutoff, parent_idx)
    rt_arg = rank_type
    if rank_type == "bic" and penalties is not None and rng.random() < 0.5:
        rt_arg = "mbic"
    bt = bic_type or "mixed"
    el = expect["eligible"]
    try:
        st = summarize_tool(mes, base_me, rt_arg, cutoff, bt, sexpr, penalties)
    except ValueError as e:
        if "All models fail" in str(e) and (not judged or not any(el)):
            c.hit("tool_all_fail_refusal")
            return
        if any(s is None for s in strict):
            c.hit("tool_refusal_unjudged")
            return
        c.violate(None, f"summarize_tool raised ValueError: {e}", sample)
        return
    except Exception as e:
        c.violate(None, f"summarize_tool raised {type(e).__name__}: {e}", sample)
        return
    rt = "ofv" if rank_type == "lrt" else rank_type
    if judged:
        sub = st[[f"d{rt}", rt, "rank"]]
        verdict = compare_ranking(None, sub, names, expect, rank_type, pvalues)
        c.hit("summarize_tool")
        if verdict is not None:
            key = None
            for variant, k in (("cutoff_le", "C19/cutoff-equal-delta-excluded"),
                               ("df_all", "C19/lrt-df-counts-fixed-parameters")):
                alt = ref_ranking(infos, recs, strict, pvalues, rank_type, cutoff, parent_idx, variant=variant)
                if alt != expect and compare_ranking(None, sub, names, alt, rank_type, pvalues) is None:
                    key = k
                    break
            c.violate(key, "summarize_tool: " + verdict, {"case": sample, "table": _df_descr(sub)})
            return
    try:
        res = create_results(ToolResults, base_me, base_me, mes, rt_arg, cutoff, bic_type=bt, strictness=sexpr,
                             penalties=penalties)
    except ValueError as e:
        if "All models fail" in str(e):
            c.hit("tool_all_fail_refusal")
            return
        c.violate(None, f"create_results raised ValueError: {e}", sample)
        return
    except Exception as e:
        c.violate(None, f"create_results raised {type(e).__name__}: {e}", sample)
        return
    if not judged or any(e is None for e in el):
        c.hit("not_judged:best_model")
        return
    ranked = [i for i in range(n + 1) if el[i]]
    if not ranked:
        c.hit("not_judged:best_model_nothing_ranked")
        return
    best_v = min(pvalues[i] for i in ranked)
    tol = 1e-9 * max(1.0, abs(best_v))
    want = {names[i] for i in ranked if pvalues[i] <= best_v + tol}
    c.hit("best_model")
    got = res.final_model.name if res.final_model is not None else None
    if got not in want:
        c.violate(None, f"create_results reports best model {got}, the top-ranked eligible model is {sorted(want)}",
                  {"case": sample, "table": _df_descr(res.summary_tool[[f'd{rt}', rt, 'rank']])})
    elif res.final_results is not results[names.index(got)]:
        c.violate(None, f"create_results.final_results is not the result object of the best model {got}", sample)


def check_summaries(c, rng, models, results, recs, names):
    from pharmpy.tools.run import summarize_errors_from_entries, summarize_modelfit_results_from_entries
    from pharmpy.workflows import ModelEntry

    mes = []
    present = []
    for i, (m, r) in enumerate(zip(models, results)):
        if i > 0 and rng.random() < 0.1:
            mes.append(ModelEntry.create(m))
        else:
            mes.append(ModelEntry.create(m, modelfit_results=r))
            present.append(i)
    try:
        df = summarize_modelfit_results_from_entries(mes)
    except Exception as e:
        c.violate(None, f"summarize_modelfit_results_from_entries raised {type(e).__name__}: {e}", names)
        return
    c.hit("summarize_modelfit")
    if list(df.index) != [names[i] for i in present]:
        c.violate(None, f"summarize_modelfit_results rows {list(df.index)}, models with results {[names[i] for i in present]}", None)
        return
    for i in present:
        d = recs[i]
        row = df.loc[names[i]]
        if not R.close(row["ofv"], d["ofv"]):
            c.violate(None, f"summary ofv of {names[i]} = {row['ofv']!r}, result has {d['ofv']!r}", None)
        ms = bool(d["minimization_successful"]) if d["minimization_successful"] is not None else False
        if bool(row["minimization_successful"]) != ms:
            c.violate(None, f"summary minimization_successful of {names[i]} = {row['minimization_successful']!r}, result has {d['minimization_successful']!r}", None)
        ne = sum(1 for cat, _ in d["log"] if cat == "ERROR")
        nw = sum(1 for cat, _ in d["log"] if cat == "WARNING")
        if int(row["errors_found"]) != ne or int(row["warnings_found"]) != nw:
            c.violate(None, f"summary errors/warnings of {names[i]} = {row['errors_found']}/{row['warnings_found']}, log has {ne}/{nw}", None)
        if d["estimates"] is not None:
            rse = dict(d["rse"]) if d["rse"] is not None else None
            for pn, v in d["estimates"]:
                if not R.close(row[f"{pn}_estimate"], v):
                    c.violate(None, f"summary {pn}_estimate of {names[i]} = {row[f'{pn}_estimate']!r}, result has {v!r}", None)
                    break
                if rse is not None:
                    if not R.close(row[f"{pn}_RSE"], rse[pn]):
                        c.violate(None, f"summary {pn}_RSE of {names[i]} = {row[f'{pn}_RSE']!r}, result has {rse[pn]!r}", None)
                        break
                    if not R.close(row[f"{pn}_SE"], abs(rse[pn] * v)):
                        c.violate(None, f"summary {pn}_SE of {names[i]} = {row[f'{pn}_SE']!r}, result has {abs(rse[pn] * v)!r}", None)
                        break
    try:
        de = summarize_errors_from_entries(mes)
    except Exception as e:
        c.violate(None, f"summarize_errors_from_entries raised {type(e).__name__}: {e}", names)
        return
    c.hit("summarize_errors")
    want = sorted((names[i], cat, msg) for i in present for cat, msg in recs[i]["log"])
    got = sorted((ix[0], ix[1], row["message"]) for ix, row in de.iterrows())
    if want != got:
        c.violate(None, f"summarize_errors rows {got[:6]}..., log entries {want[:6]}...", None)
    else:
        # error_no numbers the entries of one model in log order
        for i in present:
            sub = [(ix[2], row["message"]) for ix, row in de.iterrows() if ix[0] == names[i]]
            exp = [(k, msg) for k, (_, msg) in enumerate(recs[i]["log"])]
            if sorted(sub) != sorted(exp):
                c.violate(None, f"summarize_errors error_no of {names[i]}: {sorted(sub)}, log order {exp}", None)
                break


# ======================================================================================================
# statistic cases
# ======================================================================================================
def stat_case(c, rng):
    kind = rng.choice(["bootstrap"] * 5 + ["cdd"] * 5 + ["simeval"] * 2 + ["eta_shr"] * 3 + ["ind_shr"] * 2 + ["delta"] * 3)
    {"bootstrap": boot_case, "cdd": cdd_case, "simeval": simeval_case, "eta_shr": eta_shr_case,
     "ind_shr": ind_shr_case, "delta": delta_case}[kind](c, rng)


PNAMES = ["POP_CL", "POP_VC", "IIV_CL", "SIGMA", "b", "a10", "a2", "THETA_10", "THETA_2", "OMEGA_1_1"]


def gen_matrix(rng, n, p, allow_nan=True):
    rs = np.random.RandomState(rng.randrange(2**31))
    centers = np.array([rng.choice([0.005, 1.0, 0.1, 30.0, -2.0, 0.0]) for _ in range(p)])
    sc = np.array([rng.choice([0.001, 0.1, 1.0, 5.0]) for _ in range(p)])
    x = centers + rs.normal(size=(n, p)) * sc
    if rng.random() < 0.3:
        x = np.round(x, 1)  # ties
    flags = {"const": [], "nan": 0}
    if rng.random() < 0.25:
        j = rng.randrange(p)
        x[:, j] = centers[j]
        flags["const"].append(j)
    if allow_nan and rng.random() < 0.3:
        for _ in range(rng.choice([1, 1, 2, 3])):
            x[rng.randrange(n), rng.randrange(p)] = np.nan
            flags["nan"] += 1
    return x, flags


def boot_case(c, rng):
    import pandas as pd
    from pharmpy.tools.bootstrap.results import calculate_results
    from pharmpy.workflows.results import ModelfitResults

    p = rng.randint(1, 6)
    n = rng.randint(2, 50)
    names = rng.sample(PNAMES, p)
    x, flags = gen_matrix(rng, n, p)
    ids = rng.sample(range(1, 200), rng.randint(3, 12))
    rs = np.random.RandomState(rng.randrange(2**31))
    iofv = np.round(rs.normal(10, 3, len(ids)), 3)
    orig_est = np.round(rs.normal(1, 0.5, p), 4)
    boot_ofvs = [float(v) for v in np.round(rs.normal(100, 5, n), 2)]
    if rng.random() < 0.15:
        boot_ofvs[rng.randrange(n)] = float("nan")
    with_orig = rng.random() < 0.9
    with_inc = rng.random() < 0.8
    with_dofv = rng.random() < 0.6
    included = [[rng.choice(ids) for _ in ids] for _ in range(n)] if with_inc else None
    dofv = [None if rng.random() < 0.2 else float(round(rng.uniform(95, 110), 2)) for _ in range(n)] if with_dofv else None
    perm = [rng.sample(range(p), p) if (i > 0 and rng.random() < 0.2) else list(range(p)) for i in range(n)]
    operm = rng.sample(range(p), p)
    orig_ofv = float(round(float(np.sum(iofv)), 3))
    c.sample = {"kind": "bootstrap", "names": names, "estimates": x.tolist(), "ofvs": boot_ofvs, "orig": orig_est.tolist() if with_orig else None,
                "ids": ids, "iofv": iofv.tolist(), "included": included, "dofv": dofv, "label_perm": [q for q in perm if q != list(range(p))][:3]}
    c.fp = fp_of(c.sample)
    c.nontrivial = n >= 3
    results = [ModelfitResults(ofv=boot_ofvs[i], parameter_estimates=pd.Series(x[i, perm[i]], index=[names[j] for j in perm[i]]))
               for i in range(n)]
    orig = None
    if with_orig:
        orig = ModelfitResults(ofv=orig_ofv, parameter_estimates=pd.Series(orig_est[operm], index=[names[j] for j in operm]),
                               individual_ofv=pd.Series(iofv, index=pd.Index(ids, name="ID")))
    dres = None if dofv is None else [None if v is None else ModelfitResults(ofv=v) for v in dofv]
    try:
        res = calculate_results(None, results, original_results=orig, included_individuals=included, dofv_results=dres)
    except Exception as e:
        c.violate(None, f"bootstrap calculate_results raised {type(e).__name__}: {e}", c.sample)
        return
    ps = res.parameter_statistics
    dist = res.parameter_distribution
    for j, name in enumerate(names):
        col = x[:, j]
        scale = max(1e-300, float(np.nanmax(np.abs(col)))) if not np.all(np.isnan(col)) else 1.0
        c.hit("bootstrap_statistics")
        g = ps.loc[name]
        if not R.any_close(g["mean"], R.nan_options(col, lambda v: float(np.mean(v))), scale=scale):
            return c.violate(None, f"bootstrap mean of {name} = {g['mean']!r}, reference {np.nanmean(col)!r}", c.sample)
        if not R.any_close(g["median"], R.nan_options(col, lambda v: float(np.median(v))), scale=scale):
            return c.violate(None, f"bootstrap median of {name} = {g['median']!r}, reference {np.nanmedian(col)!r}", c.sample)
        so = R.std_options(col)
        if not R.any_close(g["stderr"], so, scale=scale):
            return c.violate(None, f"bootstrap stderr of {name} = {g['stderr']!r}, accepted {so}", c.sample)
        if not np.isnan(col).any() and n > 1:
            c.hit("observed:bootstrap_stderr_ddof1" if R.close(g["stderr"], so[0], scale=scale) else "observed:bootstrap_stderr_ddof0")
        if with_orig:
            if not R.close(g["bias"], g["mean"] - orig_est[j], scale=scale):
                return c.violate(None, f"bootstrap bias of {name} = {g['bias']!r}, mean - original = {g['mean'] - orig_est[j]!r}", c.sample)
        if g["mean"] != 0 and g["stderr"] == g["stderr"]:
            if not R.close(g["RSE"], g["stderr"] / g["mean"]):
                return c.violate(None, f"bootstrap RSE of {name} = {g['RSE']!r}, stderr/mean = {g['stderr'] / g['mean']!r}", c.sample)
        # distribution
        if not _check_distribution(c, dist.loc[name], col, f"parameter {name}", scale):
            return
    # covariance matrix
    if not np.isnan(x).any() and n >= 2:
        cm = res.covariance_matrix
        ref1 = np.cov(x, rowvar=False, ddof=1).reshape(p, p)
        ref0 = np.cov(x, rowvar=False, ddof=0).reshape(p, p)
        g = cm.loc[names, names].to_numpy()
        sc = np.sqrt(np.outer(np.diag(ref1), np.diag(ref1)))
        atol = 1e-14 * float(np.max(np.abs(x))) ** 2 + 1e-300  # rounding of a constant column's zero variance
        ok1 = np.all(np.abs(g - ref1) <= 1e-9 * np.maximum(sc, np.abs(ref1)) + atol)
        ok0 = np.all(np.abs(g - ref0) <= 1e-9 * np.maximum(sc, np.abs(ref0)) + atol)
        c.hit("bootstrap_covariance")
        if not (ok1 or ok0):
            return c.violate(None, "bootstrap covariance_matrix differs from np.cov (ddof 0 or 1)", {"case": c.sample, "got": g.tolist()})
    else:
        c.hit("not_judged:bootstrap_covariance_with_nan")
    # ofvs
    ofvs = res.ofvs
    c.hit("bootstrap_ofvs")
    cols = {}
    cols["bootstrap_bootdata_ofv"] = np.array(boot_ofvs)
    iofv_by = dict(zip(ids, iofv))
    if with_orig and with_inc:
        cols["original_bootdata_ofv"] = np.array([sum(iofv_by[i] for i in inc) for inc in included])
    if with_dofv:
        cols["bootstrap_origdata_ofv"] = np.array([np.nan if v is None else v for v in dofv])
    if "original_bootdata_ofv" in cols:
        cols["delta_bootdata"] = cols["original_bootdata_ofv"] - cols["bootstrap_bootdata_ofv"]
    if with_orig and with_dofv:
        cols["delta_origdata"] = cols["bootstrap_origdata_ofv"] - orig_ofv
    for k, ref in cols.items():
        g = ofvs[k].to_numpy(dtype=float)
        if len(g) != n or not all(R.close(a, b, scale=100.0) for a, b in zip(g, ref)):
            return c.violate(None, f"bootstrap ofvs[{k}] = {g.tolist()[:6]}.., reference {ref.tolist()[:6]}..", c.sample)
        st = res.ofv_statistics.loc[k]
        if not R.any_close(st["mean"], R.nan_options(ref, lambda v: float(np.mean(v))), scale=100.0):
            return c.violate(None, f"bootstrap ofv_statistics mean of {k} = {st['mean']!r}", c.sample)
        if not R.any_close(st["median"], R.nan_options(ref, lambda v: float(np.median(v))), scale=100.0):
            return c.violate(None, f"bootstrap ofv_statistics median of {k} = {st['median']!r}", c.sample)
        if not R.any_close(st["stderr"], R.std_options(ref), scale=100.0):
            return c.violate(None, f"bootstrap ofv_statistics stderr of {k} = {st['stderr']!r}, accepted {R.std_options(ref)}", c.sample)
        if not _check_distribution(c, res.ofv_distribution.loc[k], ref, f"ofv {k}", 100.0):
            return


QUANTS = [("0.05%", 0.0005), ("0.5%", 0.005), ("2.5%", 0.025), ("5%", 0.05), ("median", 0.5), ("95%", 0.95),
          ("97.5%", 0.975), ("99.5%", 0.995), ("99.95%", 0.9995)]


def _check_distribution(c, row, col, what, scale):
    col = np.asarray(col, dtype=float)
    clean = col[~np.isnan(col)]
    c.hit("bootstrap_distribution")
    if len(clean) == 0:
        return True
    for label, f in (("min", np.min), ("max", np.max)):
        if not R.any_close(row[label], [float(f(clean))] + ([float("nan")] if len(clean) != len(col) else []), scale=scale):
            c.violate(None, f"bootstrap distribution {label} of {what} = {row[label]!r}, reference {float(f(clean))!r}", c.sample)
            return False
    for label, q in QUANTS:
        opts = R.quantile_options(col, q)
        if len(clean) != len(col):
            opts = opts + [float("nan")]
        if not R.any_close(row[label], opts, scale=scale):
            c.violate(None, f"bootstrap distribution {label} of {what} = {row[label]!r}, accepted {opts}", c.sample)
            return False
        if not R.close(opts[0], opts[1], scale=scale):
            c.hit("observed:percentile_numpy_linear" if R.close(row[label], opts[0], scale=scale) else "observed:percentile_doc_formula")
    return True


def cdd_case(c, rng):
    import pandas as pd
    from pharmpy.tools.cdd import results as cdd
    from pharmpy.workflows.results import ModelfitResults

    p = rng.randint(1, 5)
    n = rng.randint(2, 50)
    names = rng.sample(PNAMES, p)
    rs = np.random.RandomState(rng.randrange(2**31))
    base_est = np.round(rs.normal(1, 0.5, p), 4)
    sd = np.array([rng.choice([0.01, 0.1, 0.5]) for _ in range(p)])
    x = base_est + rs.normal(size=(n, p)) * sd
    if rng.random() < 0.15:
        x[:, rng.randrange(p)] = base_est[0]
    base_cov = R.gen_cov(rng, p, rng.choice([2.0, 20.0, 200.0, 5000.0]))
    base_cov = base_cov / np.max(np.diag(base_cov)) * float(np.max(sd)) ** 2
    has_res = [not (rng.random() < 0.04) for _ in range(n)] if rng.random() < 0.3 else [True] * n
    if not any(has_res):
        has_res[0] = True
    covs = []
    for i in range(n):
        if rng.random() < 0.1:
            covs.append(None)
        else:
            covs.append(base_cov * rng.uniform(0.3, 3.0) + np.diag(np.full(p, 1e-6 * rng.random())))
    ids = rng.sample(range(1, 500), n + rng.randint(0, 3))
    iofv = np.round(rs.normal(12, 4, len(ids)), 3)
    skipped_ids = [[ids[i]] + ([ids[(i + 1) % len(ids)]] if rng.random() < 0.1 else []) for i in range(n)]
    as_str = rng.random() < 0.7
    skipped = [[str(s) for s in sk] for sk in skipped_ids] if as_str else skipped_ids
    cdd_ofvs = [float(round(rng.uniform(80, 120), 2)) for _ in range(n)]
    with_iofv = rng.random() < 0.9
    c.sample = {"kind": "cdd", "names": names, "base": base_est.tolist(), "base_cov": base_cov.tolist(), "estimates": x.tolist(),
                "has_results": has_res, "cov_scales": [None if cv is None else float(cv[0, 0] / base_cov[0, 0]) for cv in covs],
                "ids": ids, "iofv": iofv.tolist() if with_iofv else None, "skipped": skipped, "ofvs": cdd_ofvs}
    c.fp = fp_of(c.sample)
    c.nontrivial = n >= 3
    base_ofv = float(np.sum(iofv))
    base_res = ModelfitResults(ofv=base_ofv, parameter_estimates=pd.Series(base_est, index=names),
                               covariance_matrix=pd.DataFrame(base_cov, index=names, columns=names),
                               individual_ofv=pd.Series(iofv, index=pd.Index(ids, name="ID")) if with_iofv else None)
    base_model = R.POOL[0][1]
    models = [_Named(f"cdd_{i + 1}") for i in range(n)]
    res_list = []
    for i in range(n):
        if not has_res[i]:
            res_list.append(None)
        else:
            cv = None if covs[i] is None else pd.DataFrame(covs[i], index=names, columns=names)
            res_list.append(ModelfitResults(ofv=cdd_ofvs[i], parameter_estimates=pd.Series(x[i], index=names), covariance_matrix=cv))
    try:
        out = cdd.calculate_results(base_model, base_res, models, res_list, "ID", skipped)
    except Exception as e:
        c.violate(None, f"cdd calculate_results raised {type(e).__name__}: {e}", c.sample)
        return
    cr = out.case_results
    if len(cr) != n:
        return c.violate(None, f"cdd case_results has {len(cr)} rows for {n} cases", c.sample)
    binv = np.linalg.inv(base_cov)
    all_res = all(has_res)
    jack_ok = False
    if all_res:
        xm = x - x.mean(axis=0)
        jack = (n - 1) / n * (xm.T @ xm)
        ev = np.linalg.eigvalsh(jack)
        jack_ok = ev.min() > 1e-6 * ev.max() and ev.min() > 0
        # direct call
        try:
            gj = cdd.compute_jackknife_covariance_matrix(pd.DataFrame(x, columns=names))
            c.hit("cdd_jackknife")
            gj = np.asarray(gj, dtype=float)
            sc = np.sqrt(np.outer(np.diag(jack), np.diag(jack))) + 1e-12 * n * float(np.max(np.abs(x))) ** 2
            if not np.all(np.abs(gj - jack) <= 1e-9 * np.maximum(sc, np.abs(jack)) + 1e-14 * n * float(np.max(np.abs(x))) ** 2):
                return c.violate(None, "compute_jackknife_covariance_matrix differs from (N-1)/N * sum (p_i - mean)(p_i - mean)^T",
                                 {"case": c.sample, "got": gj.tolist(), "ref": jack.tolist()})
        except Exception as e:
            return c.violate(None, f"compute_jackknife_covariance_matrix raised {type(e).__name__}: {e}", c.sample)
    iofv_by = dict(zip(ids, iofv))
    for i in range(n):
        row = cr.iloc[i]
        if has_res[i]:
            d = x[i] - base_est
            ref = math.sqrt(max(0.0, float(d @ binv @ d)))
            c.hit("cdd_cook")
            if not R.close(row["cook_score"], ref, rel=1e-7, scale=1e-6):
                return c.violate(None, f"cdd cook_score of case {i + 1} = {row['cook_score']!r}, reference {ref!r}", c.sample)
            if all_res and jack_ok:
                ref = math.sqrt(max(0.0, float(d @ np.linalg.solve(jack, d))))
                c.hit("cdd_jackknife_cook")
                if not R.close(row["jackknife_cook_score"], ref, rel=1e-6, scale=1e-6):
                    return c.violate(None, f"cdd jackknife_cook_score of case {i + 1} = {row['jackknife_cook_score']!r}, reference {ref!r}", c.sample)
            if covs[i] is not None:
                ref = math.sqrt(np.linalg.det(covs[i]) / np.linalg.det(base_cov))
                c.hit("cdd_covratio")
                if not R.close(row["covariance_ratio"], ref, rel=1e-7):
                    return c.violate(None, f"cdd covariance_ratio of case {i + 1} = {row['covariance_ratio']!r}, reference {ref!r}", c.sample)
            if with_iofv:
                ref = base_ofv - sum(iofv_by[s] for s in skipped_ids[i]) - cdd_ofvs[i]
                c.hit("cdd_dofv")
                if not R.close(row["delta_ofv"], ref, scale=abs(base_ofv)):
                    return c.violate(None, f"cdd delta_ofv of case {i + 1} = {row['delta_ofv']!r}, OFV_all - iOFV_k - OFV_k = {ref!r}", c.sample)
        else:
            if not (row["cook_score"] != row["cook_score"]):
                return c.violate(None, f"cdd cook_score of case {i + 1} without results = {row['cook_score']!r}", c.sample)
    if all_res and not jack_ok:
        c.hit("not_judged:jackknife_singular")


class _Named:
    def __init__(self, name):
        self.name = name


def simeval_case(c, rng):
    import pandas as pd
    from types import SimpleNamespace
    from pharmpy.tools.simeval.results import calculate_results
    from pharmpy.workflows.results import ModelfitResults

    nid = rng.randint(2, 25)
    ns = rng.randint(2, 50)
    ids = rng.sample(range(1, 300), nid)
    rs = np.random.RandomState(rng.randrange(2**31))
    mu = rs.normal(10, 3, nid)
    x = np.round(mu + rs.normal(size=(ns, nid)) * rng.choice([0.1, 1.0, 3.0]), 3)
    if rng.random() < 0.2:
        x[:, rng.randrange(nid)] = 7.5
    if rng.random() < 0.25:
        x[rng.randrange(ns), rng.randrange(nid)] = np.nan
    orig = np.round(mu + rs.normal(size=nid) * rng.choice([1.0, 5.0, 12.0]), 3)
    exact3 = None
    if ns >= 3 and rng.random() < 0.35:
        # an individual exactly 3 sd above the mean, exactly representable: samples a-d, a, a+d (sd with ddof 1 = d)
        ns = 3
        x = x[:3]
        exact3 = rng.randrange(nid)
        a, d = rng.choice([10.0, 8.5, 20.25]), rng.choice([0.5, 0.25, 2.0])
        x[:, exact3] = rng.sample([a - d, a, a + d], 3)
        orig[exact3] = a + 3 * d
    perms = [rng.sample(range(nid), nid) if rng.random() < 0.2 else list(range(nid)) for _ in range(ns)]
    c.sample = {"kind": "simeval", "ids": ids, "sampled": x.tolist(), "original": orig.tolist()}
    c.fp = fp_of(c.sample)
    c.nontrivial = ns >= 3
    sims = [ModelfitResults(individual_ofv=pd.Series(x[s, perms[s]], index=pd.Index([ids[k] for k in perms[s]], name="ID")))
            for s in range(ns)]
    orig_res = ModelfitResults(individual_ofv=pd.Series(orig, index=pd.Index(ids, name="ID")))
    try:
        res = calculate_results(R.POOL[0][1], orig_res, SimpleNamespace(modelfit_results=sims))
    except Exception as e:
        return c.violate(None, f"simeval calculate_results raised {type(e).__name__}: {e}", c.sample)
    summ = res.iofv_summary
    for j, i in enumerate(ids):
        row = summ.loc[i]
        col = x[:, j]
        c.hit("simeval")
        if not R.close(row["original"], orig[j]):
            return c.violate(None, f"simeval original of ID {i} = {row['original']!r}, input {orig[j]!r}", c.sample)
        if not R.any_close(row["sampled_mean"], R.nan_options(col, lambda v: float(np.mean(v))), scale=10.0):
            return c.violate(None, f"simeval sampled_mean of ID {i} = {row['sampled_mean']!r}", c.sample)
        so = R.std_options(col)
        if not R.any_close(row["sampled_stdev"], so, scale=10.0):
            return c.violate(None, f"simeval sampled_stdev of ID {i} = {row['sampled_stdev']!r}, accepted {so}", c.sample)
        sdv, mean = row["sampled_stdev"], row["sampled_mean"]
        if sdv == sdv and sdv > 1e-12 and mean == mean:
            ref = (orig[j] - mean) / sdv
            if not R.close(row["residual"], ref, scale=1.0):
                return c.violate(None, f"simeval residual of ID {i} = {row['residual']!r}, (obs - mean)/sd = {ref!r}", c.sample)
            if abs(row["residual"] - 3) > 1e-9 or (j == exact3 and row["residual"] == 3.0):
                c.hit("simeval_outlier")
                if j == exact3 and row["residual"] == 3.0:
                    c.hit("simeval_outlier_exactly_3")
                if bool(row["residual_outlier"]) != (row["residual"] >= 3):
                    return c.violate(None, f"simeval residual_outlier of ID {i} = {row['residual_outlier']!r} for residual {row['residual']!r} "
                                           f"(outlier iff residual is 3 or higher)", c.sample)
            else:
                c.hit("not_judged:simeval_outlier_at_3_within_rounding")


def _eta_model(rng):
    import pharmpy.modeling as pm

    cands = [(k, m) for k, m in R.POOL if len(m.random_variables.etas.names) >= 1]
    key, m = rng.choice(cands)
    ops = []
    om = [p for d in m.random_variables.etas for p in d.parameter_names if len(d.parameter_names) == 1]
    if om and rng.random() < 0.3:
        fx = rng.choice(om)
        ops.append(("fix", fx))
        m = pm.fix_parameters(m, [fx])
    return key, m, ops


def eta_shr_case(c, rng):
    import pandas as pd
    from pharmpy.modeling import calculate_eta_shrinkage

    key, m, ops = _eta_model(rng)
    info = R.ModelInfo(m)
    etas = info.eta_names
    nid = rng.randint(2, 50)
    ids = rng.sample(range(1, 300), nid)
    x, flags = gen_matrix(rng, nid, len(etas))
    x = x * 0.1
    permuted = rng.random() < 0.06 and len(etas) >= 2
    order = list(range(len(etas)))
    if permuted:
        while order == list(range(len(etas))):
            order = rng.sample(range(len(etas)), len(etas))
    sd = rng.random() < 0.4
    pe_vals = {n: (info.init[n] * rng.choice([0.5, 1.0, 1.7, 3.0]) if info.init[n] != 0 else 0.02) for n in info.names}
    drop_fixed = rng.random() < 0.5
    pe_names = [n for n in info.names if not (drop_fixed and info.fix[n])]
    c.sample = {"kind": "eta_shrinkage", "pool": key, "ops": ops, "etas": [etas[j] for j in order], "ids": ids,
                "eta_table": x[:, order].tolist(), "pe": {n: pe_vals[n] for n in pe_names}, "sd": sd, "permuted_columns": permuted}
    c.fp = fp_of(c.sample)
    c.nontrivial = nid >= 3
    ie = pd.DataFrame(x[:, order], index=pd.Index(ids, name="ID"), columns=[etas[j] for j in order])
    pe = pd.Series([pe_vals[n] for n in pe_names], index=pe_names)
    try:
        got = calculate_eta_shrinkage(m, pe, ie, sd=sd)
    except Exception as e:
        return c.violate(None, f"calculate_eta_shrinkage raised {type(e).__name__}: {e}", c.sample)
    bad = None
    for j, eta in enumerate(etas):
        par = info.eta_var[eta]
        omega = pe_vals[par] if par in pe_names else info.init[par]
        col = x[:, j]
        if omega <= 0:
            c.hit("not_judged:nonpositive_omega")
            continue
        if sd:
            opts = [1 - s / math.sqrt(omega) if s == s else float("nan") for s in R.std_options(col)]
        else:
            opts = [1 - v / omega if v == v else float("nan") for v in R.var_options(col)]
        c.hit("eta_shrinkage")
        if not R.any_close(got[eta], opts, scale=1.0):
            bad = f"eta shrinkage of {eta} = {got[eta]!r}, accepted {opts} (omega {par} = {omega})"
            break
        if not np.isnan(col).any() and nid > 1 and not R.close(opts[0], opts[1]):
            c.hit("observed:shrinkage_ddof1" if R.close(got[eta], opts[0], scale=1.0) else "observed:shrinkage_ddof0")
    if bad:
        c.violate("C19/eta-shrinkage-positional-columns" if permuted else None, bad, c.sample)


def ind_shr_case(c, rng):
    import pandas as pd
    from pharmpy.modeling import calculate_individual_shrinkage

    key, m, ops = _eta_model(rng)
    info = R.ModelInfo(m)
    etas = info.eta_names
    k = len(etas)
    nid = rng.randint(2, 30)
    ids = rng.sample(range(1, 300), nid)
    pe_vals = {n: (info.init[n] * rng.choice([0.5, 1.0, 1.7, 3.0]) if info.init[n] != 0 else 0.02) for n in info.names}
    drop_fixed = rng.random() < 0.5
    pe_names = [n for n in info.names if not (drop_fixed and info.fix[n])]
    mats = []
    for _ in ids:
        mat = R.gen_cov(rng, k, rng.choice([2.0, 30.0])) * rng.choice([1.0, 10.0, 100.0])
        if rng.random() < 0.05:
            mat[:] = np.nan
        mats.append(mat)
    c.sample = {"kind": "individual_shrinkage", "pool": key, "ops": ops, "etas": etas, "ids": ids,
                "cov_diags": [np.diag(mm).tolist() for mm in mats], "pe": {n: pe_vals[n] for n in pe_names}}
    c.fp = fp_of(c.sample)
    c.nontrivial = nid >= 3
    covs = pd.Series([pd.DataFrame(mm, index=etas, columns=etas) for mm in mats], index=pd.Index(ids, name="ID"))
    pe = pd.Series([pe_vals[n] for n in pe_names], index=pe_names)
    try:
        got = calculate_individual_shrinkage(m, pe, covs)
    except Exception as e:
        return c.violate(None, f"calculate_individual_shrinkage raised {type(e).__name__}: {e}", c.sample)
    for r, i in enumerate(ids):
        for j, eta in enumerate(etas):
            par = info.eta_var[eta]
            omega = pe_vals[par] if par in pe_names else info.init[par]
            if omega == 0:
                continue
            ref = mats[r][j, j] / omega
            c.hit("individual_shrinkage")
            if not R.close(got.loc[i, eta], ref):
                return c.violate(None, f"individual shrinkage of ID {i} {eta} = {got.loc[i, eta]!r}, var(eta)/omega = {ref!r}", c.sample)


def delta_case(c, rng):
    import pandas as pd
    import sympy
    from pharmpy.internals.math import se_delta_method

    k = rng.randint(1, 4)
    extra = rng.randint(0, 2)
    names = rng.sample(PNAMES, k + extra)
    used = names[:k]
    syms = [sympy.Symbol(n) for n in used]

    def gen(depth=0):
        if depth >= 2 or rng.random() < 0.3:
            return rng.choice(syms)
        a, b = gen(depth + 1), gen(depth + 1)
        op = rng.choice(["+", "*", "/", "exp", "log", "pow", "-"])
        if op == "+":
            return a + b
        if op == "-":
            return a - 2 * b
        if op == "*":
            return a * b
        if op == "/":
            return a / b
        if op == "exp":
            return sympy.exp(a / 3)
        if op == "log":
            return sympy.log(a) * b
        return a ** rng.choice([2, sympy.Rational(1, 2), -1])

    for _try in range(10):
        expr = gen()
        for sy in syms:  # every used symbol occurs
            if sy not in expr.free_symbols:
                expr = expr + rng.choice([1, 2]) * sy
        vals = {n: round(rng.uniform(0.2, 5.0), 3) for n in names}
        subs = {sympy.Symbol(n): v for n, v in vals.items()}
        try:
            g = np.array([float(sympy.diff(expr, sympy.Symbol(n)).evalf(30, subs=subs)) for n in names])
            val = float(expr.evalf(30, subs=subs))
        except (TypeError, ValueError):
            continue
        if np.all(np.isfinite(g)) and math.isfinite(val) and np.max(np.abs(g)) < 1e6:
            break
    else:
        c.skipped = "no-regular-expression"
        return
    cov = R.gen_cov(rng, len(names), rng.choice([3.0, 100.0, 1e4]))
    order = rng.sample(range(len(names)), len(names))
    cnames = [names[i] for i in order]
    covdf = pd.DataFrame(cov[np.ix_(order, order)], index=cnames, columns=cnames)
    as_series = rng.random() < 0.5
    c.sample = {"kind": "delta_method", "expr": str(expr), "values": vals, "cov_names": cnames, "cov": covdf.to_numpy().tolist()}
    c.fp = fp_of(c.sample)
    c.nontrivial = True
    try:
        got = se_delta_method(expr, pd.Series(vals) if as_series else dict(vals), covdf)
    except Exception as e:
        return c.violate(None, f"se_delta_method raised {type(e).__name__}: {e}", c.sample)
    var = float(g @ cov @ g)
    if var <= 0 or not math.isfinite(var):
        c.hit("not_judged:delta_nonpositive_variance")
        return
    ref = math.sqrt(var)
    c.hit("delta_method")
    if not R.close(float(got), ref, rel=1e-8):
        c.violate(None, f"se_delta_method = {float(got)!r}, sqrt(g' C g) = {ref!r}", c.sample)
