"""Denotations of a control-stream text (via vp.nmtran_ref) and of an in-memory pharmpy Model (via
vp.ir_eval), and their comparison (DESIGN.md 2.3).
"""
from __future__ import annotations

import itertools
import math

import re

from vp import nmtran_ref as R
from vp.ir_eval import EvalError, Unbound, ev


def to_sympy_expr(e):
    from vp.ir_eval import to_sympy

    return to_sympy(e)


def close(a, b, rtol=1e-9):
    if isinstance(a, bool) or isinstance(b, bool):
        return bool(a) == bool(b)
    if a == b:
        return True
    return abs(a - b) <= rtol * max(1.0, abs(a), abs(b))


class Mismatch(Exception):
    def __init__(self, what, detail=None, q=None, vals=None):
        super().__init__(what)
        self.what = what
        self.detail = detail
        self.q = q  # (kind, name) of a numeric quantity, for the conditioning re-check
        self.vals = vals  # (text value, model value)


# =========================================================================================== IR side
class IRDen:
    def __init__(self, model):
        self.model = model
        rvs = model.random_variables
        rv_params = set(rvs.parameter_names)
        self.theta_params = [p for p in model.parameters if p.name not in rv_params]
        self.eta_names = list(rvs.etas.names)
        self.eps_names = list(rvs.epsilons.names)
        st = model.statements
        self.before = list(st.before_odes)
        self.after = list(st.after_odes) if st.ode_system is not None else []
        self.cs = st.ode_system
        if self.cs is not None:
            self.cnames = list(self.cs.compartment_names)
        else:
            self.cnames = []
        # several dependent variables: pharmpy encodes "IF (DVID.EQ.k) Y = Y_k" blocks as a map symbol -> DVID
        self.dv_map = {k.name: v for k, v in model.dependent_variables.items()}
        self.dvid_col = None
        if len(self.dv_map) > 1:
            try:
                self.dvid_col = model.datainfo.typeix["dvid"][0].name
            except Exception:
                self.dvid_col = "DVID"

    def blocks(self, which="etas"):
        rvs = self.model.random_variables.etas if which == "etas" else self.model.random_variables.epsilons
        inits = {p.name: p.init for p in self.model.parameters}
        fixed = {p.name: p.fix for p in self.model.parameters}
        out = []
        for dist in rvs:
            names = list(dist.names)
            var = dist.variance
            n = len(names)
            if n == 1:
                M = [[ev(var, inits)]]
                syms = {s.name for s in var.free_symbols}
            else:
                M = [[ev(var[i, j], inits) for j in range(n)] for i in range(n)]
                syms = set()
                for i in range(n):
                    for j in range(n):
                        syms |= {s.name for s in var[i, j].free_symbols}
            fx = all(fixed.get(s, True) for s in syms) if syms else True
            mixed = len({bool(fixed.get(s, True)) for s in syms}) > 1
            out.append({"names": names, "matrix": M, "fix": fx, "level": dist.level, "params": sorted(syms),
                        "mixed_fix": mixed})
        return out

    def env(self, theta, eta, eps, rec, t):
        env = {}
        for p, v in zip(self.theta_params, theta):
            env[p.name] = v
        # omega/sigma parameters may be referenced by statements (rare): bind inits
        for p in self.model.parameters:
            env.setdefault(p.name, float(p.init))
        for n, v in zip(self.eta_names, eta):
            env[n] = v
        for n, v in zip(self.eps_names, eps):
            env[n] = v
        env.update(rec)
        env["t"] = t
        return env

    def _funcs(self, amounts):
        if not amounts:
            return {}
        funcs = {f"A_{n}": v for n, v in amounts.items()}
        if self.cs is not None:
            for n in self.cnames:
                funcs[self.cs.find_compartment(n).amount.name] = amounts[n]
        return funcs

    def run_pk(self, env, amounts=None):
        """Statements before the ODE system ($DES assignments may read amounts)."""
        from pharmpy.model import Assignment

        store = dict(env)
        funcs = self._funcs(amounts)
        for s in self.before:
            if isinstance(s, Assignment):
                _assign(store, s, funcs)
        return store

    def field(self, store, amounts: dict):
        """amounts: compartment name -> value.  Returns dict name -> da/dt from the graph accessors."""
        from pharmpy.model import output

        cs = self.cs
        funcs = {f"A_{n}": v for n, v in amounts.items()}
        # amounts may have custom function names: bind by the compartment's amount expression name too
        for n in self.cnames:
            comp = cs.find_compartment(n)
            funcs[comp.amount.name] = amounts[n]
        d = {n: 0.0 for n in self.cnames}
        for n in self.cnames:
            comp = cs.find_compartment(n)
            for dest, rate in cs.get_compartment_outflows(comp):
                r = ev(rate, store, funcs)
                flow = r * amounts[n]
                d[n] -= flow
                if dest is not output and hasattr(dest, "name"):
                    d[dest.name] += flow
            inp = comp.input
            d[n] += ev(inp, store, funcs)
        return d

    def events(self, store):
        """-> dict comp name -> {'doses': [(kind, amount, admid, value)], 'lag': v, 'bio': v}"""
        from pharmpy.model import Bolus, Infusion

        out = {}
        for n in self.cnames:
            comp = self.cs.find_compartment(n)
            doses = []
            for dz in comp.doses:
                if isinstance(dz, Bolus):
                    doses.append(("bolus", _tryev(dz.amount, store), dz.admid, None))
                else:
                    if dz.rate is not None:
                        kind = "rate"
                        val = _tryev(dz.rate, store)
                        sym = str(dz.rate)
                    else:
                        kind = "duration"
                        val = _tryev(dz.duration, store)
                        sym = str(dz.duration)
                    doses.append((kind, _tryev(dz.amount, store), dz.admid, (sym, val)))
            out[n] = {"doses": doses, "lag": _tryev(comp.lag_time, store), "bio": _tryev(comp.bioavailability, store)}
        return out

    def run_error(self, store, amounts: dict):
        from pharmpy.model import Assignment

        funcs = {f"A_{n}": v for n, v in amounts.items()}
        if self.cs is not None:
            for n in self.cnames:
                funcs[self.cs.find_compartment(n).amount.name] = amounts[n]
        st = dict(store)
        if UNDEF in st:
            st[UNDEF] = set(st[UNDEF])
        for s in self.after:
            if isinstance(s, Assignment):
                _assign(st, s, funcs)
        return st


UNDEF = "__undefined_by_piecewise__"


def _assign(store, s, funcs):
    """store[symbol] = value; a Piecewise without applicable branch leaves the symbol WITHOUT a value on this path:
    reading it later is an Unbound read, comparing it with a value the text assigns is a mismatch."""
    from vp.ir_eval import NoBranch

    name = s.symbol.name
    try:
        store[name] = ev(s.expression, store, funcs)
        if UNDEF in store:
            store[UNDEF].discard(name)
    except NoBranch:
        store.pop(name, None)
        store.setdefault(UNDEF, set()).add(name)


def _tryev(e, store):
    try:
        return ev(e, store)
    except (EvalError, Unbound) as x:
        return f"<{type(x).__name__}:{x}>"


# =========================================================================================== text side
class TextDen:
    def __init__(self, text: str):
        self.rm = R.read_control_stream(text)
        rm = self.rm
        self.names = R.comp_names(rm) if rm.advan else []
        self.n = rm.ncomp if rm.advan else 0
        self.pk_names = R.assigned_names(rm.pk)
        self.err_names = R.assigned_names(rm.error if rm.advan else rm.pred)

    # repairs used only by delta checks of classifiers (never by a primary comparison)
    eta_name_env = None  # list of model eta names: raw ETA(k) is read as the model's random variable "ETA_k"
    err_amount_names = None  # model compartment order: A(k) in $ERROR is read as amount of the k-th of these

    def env(self, theta, eta, eps, rec, t):
        st = {}
        for i, v in enumerate(theta, 1):
            st[f"THETA({i})"] = v
        for i, v in enumerate(eta, 1):
            st[f"ETA({i})"] = v
        if self.eta_name_env:
            byname = dict(zip(self.eta_name_env, eta))
            for nm, v in byname.items():
                m = re.fullmatch(r"ETA_(\d+)", nm)
                if m:
                    st[f"ETA({int(m.group(1))})"] = v
        for i, v in enumerate(eps, 1):
            st[f"EPS({i})"] = v
        for name, key in self.rm.abbr.items():
            if self.eta_name_env and name in self.eta_name_env:
                st[name] = dict(zip(self.eta_name_env, eta))[name]
            elif key in st:
                st[name] = st[key]
            elif key.startswith("ERR(") and "EPS(" + key[4:] in st:
                st[name] = st["EPS(" + key[4:]]
        st.update({k.upper(): v for k, v in rec.items()})
        return st

    def run_pk(self, st):
        st = dict(st)
        R.exec_code(self.rm.pk, st)
        return st

    def field(self, st, a, t):
        return R.vector_field(self.rm, st, a, t)

    def scale(self, st, comp):
        key = f"S{comp}"
        if key in st and key in self.pk_names:
            return st[key]
        # SC is the scale of the central compartment only for the library ADVANs (1-4, 10-12); with a general
        # ADVAN and $MODEL it is an ordinary user variable
        if self.rm.advan in R.LIB_NAMES and self.names[comp - 1] == "CENTRAL" and "SC" in self.pk_names:
            return st["SC"]
        return 1.0

    def run_error(self, st, a, t, obs_comp=None, f_value=None):
        st = dict(st)
        rm = self.rm
        for i, v in enumerate(a, 1):
            st[f"A({i})"] = v
        oc = obs_comp or R.default_obs_comp(rm)
        s = self.scale(st, oc)
        if s == 0:
            raise R.RefError("S=0")
        st["F"] = a[oc - 1] / s if f_value is None else f_value
        if self.err_amount_names:
            for k, nm in enumerate(self.err_amount_names, 1):
                if nm in self.names:
                    st[f"A({k})"] = a[self.names.index(nm)]
        R.exec_code(rm.error, st)
        return st

    def run_pred(self, st):
        st = dict(st)
        R.exec_code(self.rm.pred, st)
        return st


# =========================================================================================== comparison
def _is_observation_record(rec):
    if "EVID" in rec:
        return rec["EVID"] == 0
    return not rec.get("AMT") and not rec.get("MDV")


def _record_obs_comp(td, rec):
    """NM-TRAN: on an observation record (EVID 0; without EVID: AMT = 0 and MDV = 0) a non-zero CMT item names the
    compartment whose scaled amount is F; 0 / absent = the default observation compartment.  Dose and other-type
    records and compartment numbers outside 1..n (output compartment, negative = switch off) are left to the default."""
    cmt = rec.get("CMT")
    if not cmt:
        return None
    if "EVID" in rec:
        is_obs = rec["EVID"] == 0
    else:
        is_obs = not rec.get("AMT") and not rec.get("MDV")
    if not is_obs:
        return None
    n = int(cmt)
    if n != cmt or not 1 <= n <= td.n:
        return None
    return n


def sample_theta(rng, th):
    """th: (init, lower, upper, fix)"""
    init, lo, hi, fix = th
    if fix:
        return init
    if lo >= 0 or init > 0:
        a = max(lo, 0.05)
        b = min(hi, 20.0)
    else:
        a = max(lo, -3.0)
        b = min(hi, 3.0)
    if not a < b:
        return init
    return rng.uniform(a, b)


def synth_record(rng, input_names):
    """A data record for models without a readable dataset: random values per $INPUT item."""
    rec = {}
    dose = rng.random() < 0.5
    for n in input_names:
        if n is None:
            continue
        names = n if isinstance(n, tuple) else (n,)
        if "AMT" in names:
            v = rng.choice([10.0, 25.0, 100.0]) if dose else 0.0
        elif "EVID" in names:
            v = 1.0 if dose else 0.0
        elif "MDV" in names:
            v = 1.0 if dose else 0.0
        elif "RATE" in names or "CMT" in names or "SS" in names or "ADDL" in names or "II" in names:
            v = 0.0
        elif "ID" in names:
            v = float(rng.randint(1, 5))
        elif "TIME" in names:
            v = rng.uniform(0, 24)
        else:
            v = round(rng.uniform(0.5, 9.5), 2)
        for nm in names:
            rec[nm] = v
    return rec


def compare_parameters(td: TextDen, ird: IRDen, c, prefix="", skip_block_fix=False):
    """Parameters and random-effect structure.  Raises Mismatch."""
    rm = td.rm
    c.hit(prefix + "params")
    if len(rm.thetas) != len(ird.theta_params):
        raise Mismatch(f"number of thetas: text {len(rm.thetas)}, model {len(ird.theta_params)} "
                       f"({[p.name for p in ird.theta_params]})")
    for i, (t, p) in enumerate(zip(rm.thetas, ird.theta_params), 1):
        plo = float(p.lower)
        phi = float(p.upper)
        if not (close(t.init, float(p.init), 1e-12) and _beq(t.lower, plo) and _beq(t.upper, phi) and bool(t.fix) == bool(p.fix)):
            raise Mismatch(f"THETA({i}) text (init={t.init}, lower={t.lower}, upper={t.upper}, fix={t.fix}) vs model "
                           f"{p.name} (init={float(p.init)}, lower={plo}, upper={phi}, fix={p.fix})")
    for which, blocks in (("etas", rm.omegas), ("epsilons", rm.sigmas)):
        ib = ird.blocks(which)
        c.hit(prefix + "rv_structure")
        # IR may hold several distributions; text blocks of size 1 that the IR dropped?  No: must match 1:1
        tsizes = [b.size for b in blocks]
        isizes = [len(b["names"]) for b in ib]
        if tsizes != isizes:
            raise Mismatch(f"{which} block structure: text {tsizes}, model {isizes}")
        for k, (tb, b) in enumerate(zip(blocks, ib)):
            for i in range(tb.size):
                for j in range(tb.size):
                    if not close(tb.matrix[i][j], b["matrix"][i][j], 1e-9):
                        raise Mismatch(f"{which} block {k} entry ({i},{j}): text {tb.matrix[i][j]}, model {b['matrix'][i][j]}",
                                       {"text": tb.matrix, "model": b["matrix"]})
            if b.get("mixed_fix"):
                c.hit(prefix + "not_judged:block-with-mixed-fixedness")  # not expressible in a $OMEGA BLOCK
            elif not skip_block_fix and not tb.same and bool(tb.fix) != bool(b["fix"]):
                raise Mismatch(f"{which} block {k} fixedness: text {tb.fix}, model {b['fix']}")


def _beq(a, b):
    if math.isinf(a) or math.isinf(b):
        return a == b
    return close(a, b, 1e-12)


def _perms(text_names, ir_names, free=False):
    """Yield mappings text index (0-based) -> IR compartment name, consistent with equal names (free=True: any
    bijection, used only by the relabelling delta check)."""
    if free:
        if len(text_names) != len(ir_names) or len(ir_names) > 6:
            return
        for perm in itertools.permutations(ir_names):
            yield dict(enumerate(perm))
        return
    fixed = {}
    free_t = []
    used = set()
    for i, n in enumerate(text_names):
        if n in ir_names:
            fixed[i] = n
            used.add(n)
        else:
            free_t.append(i)
    free_ir = [n for n in ir_names if n not in used]
    if len(free_t) != len(free_ir):
        return
    if len(free_t) > 5:
        free_ir_perms = [free_ir]
    else:
        free_ir_perms = itertools.permutations(free_ir)
    for perm in free_ir_perms:
        m = dict(fixed)
        for i, n in zip(free_t, perm):
            m[i] = n
        yield m


def compare_dynamic(td: TextDen, ird: IRDen, records, rng, K, c, prefix="", dose_info=None, f_from_ir=False,
                    skip_events=False, free_perm=False):
    """See _compare_dynamic.  All evaluations run in 50-digit arithmetic (vp.numctx) so that neither side's
    rounding decides a verdict; conditioning is probed by perturbing every leaf (inputs and literals)."""
    from vp.numctx import CTX

    CTX.use_mp()
    try:
        return _compare_dynamic(td, ird, records, rng, K, c, prefix, dose_info, f_from_ir, skip_events, free_perm)
    finally:
        CTX.use_float()


def _compare_dynamic(td: TextDen, ird: IRDen, records, rng, K, c, prefix="", dose_info=None, f_from_ir=False,
                     skip_events=False, free_perm=False):
    """Sampled comparison of $PK variables, vector field, events and $ERROR variables.

    records: list of dicts (data records: column name -> float).  dose_info: optional dict from the harness
    describing text-side dose events: {comp number: set(kind)}.
    Raises Mismatch on disagreement.  Returns number of judged sample points.
    """
    rm = td.rm
    ths = [(t.init, t.lower, t.upper, t.fix) for t in rm.thetas]
    n_eta = sum(b.size for b in rm.omegas)
    n_eps = sum(b.size for b in rm.sigmas)
    judged = 0
    rejected = 0
    has_ode = bool(rm.advan)
    if has_ode and ird.cs is None:
        raise Mismatch("text has a PREDPP model, the model object has no ODE system")
    if not has_ode and ird.cs is not None:
        raise Mismatch("text is a $PRED model, the model object has an ODE system")
    perms = None
    if has_ode:
        if td.n != len(ird.cnames):
            raise Mismatch(f"number of compartments: text {td.n} ({td.names}), model {len(ird.cnames)} ({ird.cnames})")
        perms = list(_perms(td.names, ird.cnames, free_perm))
        if not perms:
            raise Mismatch(f"compartment names cannot be aligned: text {td.names}, model {ird.cnames}")
    attempts = 0
    surviving = perms
    while judged < K and attempts < 6 * K:
        attempts += 1
        theta = [sample_theta(rng, th) for th in ths]
        eta = [rng.uniform(-0.7, 0.7) for _ in range(n_eta)]
        eps = [rng.uniform(-0.7, 0.7) for _ in range(n_eps)]
        rec = dict(rng.choice(records)) if records else synth_record(rng, rm.input_names)
        if ird.dvid_col is not None:
            rec[ird.dvid_col] = float(rng.choice(sorted(ird.dv_map.values())))
        t = rng.uniform(0.0, 48.0)
        a = [rng.uniform(0.1, 50.0) for _ in range(td.n)]
        tenv = td.env(theta, eta, eps, rec, t)
        ienv = ird.env(theta, eta, eps, rec, t)
        oc = _record_obs_comp(td, rec) if has_ode else None
        # ---- text side first: if the reference cannot evaluate the point it is redrawn
        try:
            if has_ode:
                tpk = td.run_pk(tenv)
                tfield = td.field(tpk, a, t)
                terr = td.run_error(tpk, a, t, obs_comp=oc)
            else:
                tpk = td.run_pred(tenv)
        except (R.RefError,):
            rejected += 1
            c.hit(prefix + "point_rejected")
            continue
        except R.RefUnbound as u:
            # a read of a variable with no value on this path/record: outside the generated subset
            rejected += 1
            c.hit(prefix + "point_rejected_unbound")
            continue
        # ---- conditioning probe: re-evaluate the reference in 50-digit arithmetic with every leaf (parameter,
        # eta/eps, data item, amount AND every numeric literal) perturbed independently by <= 1e-13 relative;
        # a quantity that moves by more than 1e-11 relative amplifies its inputs' rounding by > 100 (cancellation,
        # a branch about to flip): pharmpy's legitimately rounded constants could then decide the comparison, so the
        # quantity is not compared at this point
        unstable = set()
        from vp.numctx import CTX

        try:
            prng = rng.__class__(rng.random())
            pert = lambda x: x * (1 + 1e-13 * prng.uniform(-1, 1))  # noqa: E731
            CTX.use_mp(1e-13, prng.random())
            tenv_p = td.env([pert(x) for x in theta], [pert(x) for x in eta], [pert(x) for x in eps],
                            {k: (pert(v) if k not in ("ID",) else v) for k, v in rec.items()}, t)
            if has_ode:
                tpk_p = td.run_pk(tenv_p)
                a_p = [pert(x) for x in a]
                tfield_p = td.field(tpk_p, a_p, t)
                terr_p = td.run_error(tpk_p, a_p, t, obs_comp=oc)
                CTX.use_mp()
                if any(not close(x, y, 1e-11) for x, y in zip(tfield, tfield_p)):
                    rejected += 1
                    c.hit(prefix + "point_rejected_illconditioned")
                    continue
                for st1, st2 in ((tpk, tpk_p), (terr, terr_p)):
                    for k2, v2 in st1.items():
                        if k2 in st2 and not isinstance(v2, bool) and not close(v2, st2[k2], 1e-11):
                            unstable.add(k2)
            else:
                tpk_p = td.run_pred(tenv_p)
                CTX.use_mp()
                for k2, v2 in tpk.items():
                    if k2 in tpk_p and not isinstance(v2, bool) and not close(v2, tpk_p[k2], 1e-11):
                        unstable.add(k2)
        except (R.RefError, R.RefUnbound):
            CTX.use_mp()
            rejected += 1
            c.hit(prefix + "point_rejected_illconditioned")
            continue
        finally:
            CTX.use_mp()
        if unstable:
            c.hit(prefix + "vars_unstable_skipped", len(unstable))
        # ---- IR side
        if not has_ode:
            try:
                ipk = ird.run_pk(ienv)
            except EvalError:
                rejected += 1
                c.hit(prefix + "point_rejected_ir")
                continue
            except Unbound as u:
                raise Mismatch(f"model statements read undefined symbol {u} where the text evaluates fine")
            try:
                _cmp_vars(td.err_names, tpk, ipk, "$PRED", c, prefix, unstable)
            except Mismatch as mm:
                if mm.q is not None and _ir_illconditioned(ird, mm, None, theta, eta, eps, rec, t, a, 0):
                    rejected += 1
                    c.hit(prefix + "point_rejected_illconditioned_ir")
                    continue
                raise
            judged += 1
            continue
        # ---- vector field under every surviving compartment alignment
        ok_perms = []
        last_err = None
        for m in surviving:
            amounts = {m[i]: a[i] for i in range(td.n)}
            try:
                ipk = ird.run_pk(ienv, amounts)
                _cmp_vars(td.pk_names, tpk, ipk, "$PK", None, prefix, unstable)
            except EvalError:
                last_err = "reject"
                break
            except Unbound as u:
                last_err = Mismatch(f"model statements read undefined symbol {u} where the text evaluates fine")
                continue
            except Mismatch as mm:
                last_err = mm
                continue
            try:
                ifield = ird.field(ipk, amounts)
            except EvalError:
                last_err = "reject"
                break
            except Unbound as u:
                last_err = Mismatch(f"ODE system of the model reads undefined symbol {u}")
                continue
            bad = None
            for i in range(td.n):
                if not close(tfield[i], ifield[m[i]], 1e-8):
                    bad = Mismatch(f"d/dt of compartment {i+1} ({td.names[i]} ~ {m[i]}): text {tfield[i]}, model {ifield[m[i]]}",
                                   {"theta": theta, "eta": eta, "a": a, "record": rec},
                                   q=("field", m[i]), vals=(tfield[i], ifield[m[i]]))
                    break
            if bad is not None:
                last_err = bad
                continue
            # error block under this alignment
            try:
                ierr = ird.run_error(ipk, amounts)
            except EvalError:
                last_err = "reject"
                break
            except Unbound as u:
                if str(u) == "F" and "CMT" in rec and not _is_observation_record(rec):
                    # pharmpy defines F per observed compartment from the CMT values of the OBSERVATION records; when
                    # every observation names its compartment there is no default branch, and F has no value on dose /
                    # other-type records - where no prediction is used.  Not a difference in meaning: not judged there
                    c is not None and c.hit(prefix + "point_rejected_F_undefined_on_non_observation_record")
                    last_err = "reject"
                    break
                last_err = Mismatch(f"error statements of the model read undefined symbol {u}")
                continue
            if ird.dvid_col is not None:
                sel = [k for k, v in ird.dv_map.items() if float(v) == rec[ird.dvid_col]]
                if sel and sel[0] in ierr:
                    ierr = dict(ierr)
                    first = next(iter(ird.dv_map))
                    ierr[first] = ierr[sel[0]]
            terr_use = terr
            if f_from_ir:
                # delta check of the F link: force the text side's F to the model's value
                try:
                    terr_use = td.run_error(tpk, a, t, obs_comp=oc, f_value=ierr.get("F"))
                except (R.RefError, R.RefUnbound):
                    last_err = "reject"
                    break
            try:
                _cmp_vars(["F"] + td.err_names, terr_use, ierr, "$ERROR", None, prefix, unstable)
            except Mismatch as mm:
                last_err = mm
                continue
            # events
            try:
                if not skip_events:
                    _cmp_events(td, ird, tpk, ipk, m, dose_info)
            except Mismatch as mm:
                last_err = mm
                continue
            ok_perms.append(m)
        if last_err == "reject":
            rejected += 1
            c.hit(prefix + "point_rejected_ir")
            continue
        if not ok_perms:
            if isinstance(last_err, Mismatch) and last_err.q is not None and _ir_illconditioned(
                    ird, last_err, surviving[-1], theta, eta, eps, rec, t, a, td.n):
                rejected += 1
                c.hit(prefix + "point_rejected_illconditioned_ir")
                continue
            raise last_err
        surviving = ok_perms
        c.hit(prefix + "pk_vars", len(td.pk_names))
        c.hit(prefix + "field")
        c.hit(prefix + "error_vars", len(td.err_names) + 1)
        c.hit(prefix + "events")
        judged += 1
    if judged == 0:
        c.hit(prefix + "no_point_judged")
    try:
        c.last_perms = surviving
    except Exception:
        pass
    return judged


def _ir_illconditioned(ird, mm, m, theta, eta, eps, rec, t, a, n):
    """Second guard, on the model side: re-evaluate the mismatching quantity of the model with every leaf and
    literal perturbed by <= 1e-13 (50-digit arithmetic).  If it moves by more than 1 % of the observed disagreement
    the disagreement is within the amplification of the model's own rounded constants: the point is not judged."""
    import random as _r

    from vp.numctx import CTX

    prng = _r.Random(12345)
    pert = lambda x: x * (1 + 1e-13 * prng.uniform(-1, 1))  # noqa: E731
    kind, name = mm.q
    try:
        vals = []
        for probe in (False, True):
            if probe:
                CTX.use_mp(1e-13, 99)
                env = ird.env([pert(x) for x in theta], [pert(x) for x in eta], [pert(x) for x in eps],
                              {k: (pert(v) if k != "ID" else v) for k, v in rec.items()}, t)
                aa = [pert(x) for x in a]
            else:
                CTX.use_mp()
                env = ird.env(theta, eta, eps, rec, t)
                aa = a
            amounts = {m[i]: aa[i] for i in range(n)} if m else None
            ipk = ird.run_pk(env, amounts)
            if kind == "field":
                vals.append(ird.field(ipk, amounts)[name])
            elif kind == "$ERROR":
                vals.append(ird.run_error(ipk, amounts)[name])
            else:
                vals.append(ipk[name])
    except Exception:
        return False
    finally:
        CTX.use_mp()
    move = abs(vals[0] - vals[1])
    gap = abs(mm.vals[0] - mm.vals[1])
    return gap <= move * 100


def _cmp_vars(names, tstore, istore, where, c, prefix, unstable=()):
    n = 0
    for name in names:
        if "(" in name or name in unstable:
            continue
        if name not in tstore:
            continue  # not assigned on this path in the text
        if name not in istore and name in istore.get(UNDEF, ()):
            raise Mismatch(f"{where} variable {name}: text {tstore[name]}, model has no value (no branch of its Piecewise applies)")
        if name not in istore:
            # the model object lost a variable the text assigns: only a mismatch if something else needs it; the
            # downstream comparisons (field, F, Y) decide.  Counted.
            if c is not None:
                c.hit(prefix + "var_missing_in_model")
            continue
        tv, iv = tstore[name], istore[name]
        n += 1
        if not close(tv, iv, 1e-9):
            raise Mismatch(f"{where} variable {name}: text {tv}, model {iv}", q=(where, name), vals=(tv, iv))
    if c is not None:
        c.hit(prefix + "vars", n)


def _cmp_events(td, ird, tpk, ipk, m, dose_info):
    """Lag, bioavailability per compartment; dose kinds per compartment if dose_info is given."""
    iev = ird.events(ipk)
    for i in range(td.n):
        comp = i + 1
        ie = iev[m[i]]
        lag_key, f_key = f"ALAG{comp}", f"F{comp}"
        tlag = tpk[lag_key] if lag_key in td.pk_names and lag_key in tpk else 0.0
        tbio = tpk[f_key] if f_key in td.pk_names and f_key in tpk else 1.0
        has_dose = bool(ie["doses"])
        # lag / F of a compartment only matter when doses enter it; the model may keep them regardless
        if isinstance(ie["lag"], str) or isinstance(ie["bio"], str):
            if has_dose:
                raise Mismatch(f"lag/bioavailability of {m[i]} not evaluable: {ie}")
            continue
        if dose_info is not None and comp in dose_info or (dose_info is None and has_dose):
            if not close(tlag, ie["lag"]):
                raise Mismatch(f"lag time of compartment {comp} ({m[i]}): text {tlag}, model {ie['lag']}")
            if not close(tbio, ie["bio"]):
                raise Mismatch(f"bioavailability of compartment {comp} ({m[i]}): text {tbio}, model {ie['bio']}")
    if dose_info is not None:
        for comp, kinds in dose_info.items():
            ie = iev[m[comp - 1]]
            ikinds = set()
            for kind, amt, admid, val in ie["doses"]:
                if kind == "bolus":
                    ikinds.add("bolus")
                elif kind == "rate":
                    ikinds.add("Rn" if val[0] == f"R{comp}" else ("data_rate" if val[0] == "RATE" else f"rate:{val[0]}"))
                    if val[0] == f"R{comp}":
                        tv = tpk.get(f"R{comp}")
                        if tv is None or isinstance(val[1], str) or not close(tv, val[1]):
                            raise Mismatch(f"rate parameter R{comp}: text {tv}, model {val[1]}")
                else:
                    ikinds.add("Dn" if val[0] == f"D{comp}" else f"duration:{val[0]}")
                    if val[0] == f"D{comp}":
                        tv = tpk.get(f"D{comp}")
                        if tv is None or isinstance(val[1], str) or not close(tv, val[1]):
                            raise Mismatch(f"duration parameter D{comp}: text {tv}, model {val[1]}")
            if ikinds != set(kinds):
                raise Mismatch(f"doses into compartment {comp} ({m[comp-1]}): data/text say {sorted(kinds)}, model has {sorted(ikinds)}")
        for i in range(td.n):
            if (i + 1) not in dose_info and iev[m[i]]["doses"]:
                raise Mismatch(f"model has doses into compartment {i+1} ({m[i]}) but no dose record targets it")


# =========================================================================================== helpers for checks
def records_of(model, limit=80):
    """Data records of a model's dataset: dose and observation records interleaved, numeric columns only."""
    df = model.dataset
    if df is None:
        return []
    try:
        amt = model.datainfo.typeix["dose"][0].name
    except Exception:
        amt = "AMT" if "AMT" in df.columns else None
    recs = []
    nd = no = 0
    for row in df.head(600).to_dict("records"):
        r = {k: float(v) for k, v in row.items() if isinstance(v, (int, float))}
        is_dose = amt is not None and r.get(amt, 0) != 0
        if is_dose and nd < limit // 2:
            recs.append(r)
            nd += 1
        elif not is_dose and no < limit // 2:
            recs.append(r)
            no += 1
        if nd + no >= limit:
            break
    return recs


def dose_info_from_records(td: TextDen, records, amt="AMT"):
    """Text-side dose events by NM-TRAN rules: compartment = CMT item if present and non-zero, else the default
    dose compartment; kind from the RATE item."""
    rm = td.rm
    names = set()
    for n in rm.input_names:
        if n is None:
            continue
        names |= set(n) if isinstance(n, tuple) else {n}
    has_cmt = "CMT" in names
    has_rate = "RATE" in names
    info = {}
    for r in records:
        if not r.get(amt, 0):
            continue
        comp = int(r["CMT"]) if has_cmt and r.get("CMT", 0) else R.default_dose_comp(rm)
        if has_rate:
            v = r.get("RATE", 0)
            kind = "bolus" if v == 0 else ("Rn" if v == -1 else ("Dn" if v == -2 else "data_rate"))
        else:
            kind = "bolus"
        info.setdefault(comp, set()).add(kind)
    return info


# =========================================================================================== model vs model
def compare_models(a: IRDen, b: IRDen, records, rng, K, c, prefix="", rename=None, compare_field=True, targets=None,
                   extra_targets=()):
    """Sampled equivalence of two in-memory models (refactoring r: a -> b).

    Parameters / etas / epsilons are matched by name (through `rename`: old name -> new name); a parameter that
    exists on one side only takes its initial estimate there.  Compared: the vector field (compartments by name),
    dose events, and every symbol in `targets` (default: F and the dependent variables) after the error statements.
    Raises Mismatch.  Returns the number of judged points.
    """
    from vp.numctx import CTX

    CTX.use_mp()
    try:
        return _compare_models(a, b, records, rng, K, c, prefix, rename or {}, compare_field, targets, extra_targets)
    finally:
        CTX.use_float()


def _names_env(ird, values_by_name, rec, t):
    env = {}
    for p in ird.model.parameters:
        env[p.name] = values_by_name.get(p.name, float(p.init))
    for n in ird.eta_names + ird.eps_names:
        env[n] = values_by_name.get(n, 0.0)
    env.update(rec)
    env["t"] = t
    return env


def _compare_models(a, b, records, rng, K, c, prefix, rename, compare_field, targets, extra_targets=()):
    inv = {v: k for k, v in rename.items()}
    has_ode = a.cs is not None and b.cs is not None
    if compare_field and (a.cs is None) != (b.cs is None):
        raise Mismatch("one model has an ODE system, the other has not")
    if has_ode and compare_field:
        na = [rename.get(n, n) for n in a.cnames]
        if sorted(na) != sorted(b.cnames):
            raise Mismatch(f"compartments differ: {a.cnames} vs {b.cnames}")
    tg = targets
    if tg is None:
        tg = ["F"] + [x for x in extra_targets if x != "F"]
        # the dependent variables are matched by position (a refactoring may legitimately rename the symbol that
        # carries the observation, e.g. cleanup_model turning 'Y = F' into the dependent variable F)
        dv_pairs = list(zip(list(a.dv_map), list(b.dv_map)))
    else:
        dv_pairs = []
    judged = 0
    attempts = 0
    while judged < K and attempts < 6 * K:
        attempts += 1
        vals = {}
        rvp = set(a.model.random_variables.parameter_names)
        for p in a.model.parameters:
            if p.name in rvp:
                vals[p.name] = float(p.init)
            else:
                vals[p.name] = sample_theta(rng, (float(p.init), float(p.lower), float(p.upper), p.fix))
        for n in a.eta_names + a.eps_names:
            vals[n] = rng.uniform(-0.7, 0.7)
        # a random variable whose variance is fixed to zero is identically zero
        pinit = {p.name: (float(p.init), p.fix) for p in a.model.parameters}
        for dist in a.model.random_variables:
            if len(dist.names) == 1 and dist.variance.is_symbol():
                iv = pinit.get(dist.variance.name)
                if iv and iv[0] == 0 and iv[1]:
                    vals[dist.names[0]] = 0.0
        vals_b = {rename.get(k, k): v for k, v in vals.items()}
        rec = dict(rng.choice(records)) if records else {}
        rec_b = {rename.get(k, k): v for k, v in rec.items()}
        t = rng.uniform(0.0, 48.0)
        amounts = {n: rng.uniform(0.1, 50.0) for n in a.cnames} if a.cs is not None else {}
        amounts_b = {rename.get(n, n): v for n, v in amounts.items()}
        if b.cs is not None and a.cs is None:
            amounts_b = {n: rng.uniform(0.1, 50.0) for n in b.cnames}
        try:
            apk = a.run_pk(_names_env(a, vals, rec, t), amounts or None)
            aerr = a.run_error(apk, amounts) if a.cs is not None else apk
            afield = a.field(apk, amounts) if (has_ode and compare_field) else None
        except EvalError:
            c.hit(prefix + "point_rejected")
            continue
        except Unbound as u:
            c.hit(prefix + "point_rejected_unbound_in_original")
            continue
        try:
            bpk = b.run_pk(_names_env(b, vals_b, rec_b, t), amounts_b or None)
            berr = b.run_error(bpk, amounts_b) if b.cs is not None else bpk
            bfield = b.field(bpk, amounts_b) if (has_ode and compare_field) else None
        except EvalError:
            c.hit(prefix + "point_rejected")
            continue
        except Unbound as u:
            raise Mismatch(f"the transformed model reads undefined symbol {u} where the original evaluates fine")
        if afield is not None:
            for n in a.cnames:
                nb = rename.get(n, n)
                if not close(afield[n], bfield[nb], 1e-8):
                    raise Mismatch(f"d/dt of compartment {n}: before {afield[n]}, after {bfield[nb]}",
                                   {"values": {k: float(v) for k, v in vals.items()}, "record": rec})
            c.hit(prefix + "field")
        for s in tg:
            sb = rename.get(s, s)
            if s in aerr and sb in berr:
                if not close(aerr[s], berr[sb], 1e-8):
                    raise Mismatch(f"{s}: before {aerr[s]}, after {berr[sb]}",
                                   {"values": {k: float(v) for k, v in vals.items()}, "record": rec})
                c.hit(prefix + "target_vars")
            elif s in aerr and sb not in berr and s != "F":
                raise Mismatch(f"{s} is defined before the transformation but not after")
        for ya, yb in dv_pairs:
            if ya in aerr and yb in berr:
                if not close(aerr[ya], berr[yb], 1e-8):
                    raise Mismatch(f"dependent variable {ya} (after: {yb}): before {aerr[ya]}, after {berr[yb]}",
                                   {"values": {k: float(v) for k, v in vals.items()}, "record": rec})
                c.hit(prefix + "target_vars")
            elif ya in aerr:
                raise Mismatch(f"dependent variable {yb} is not defined after the transformation")
        if len(a.dv_map) != len(b.dv_map):
            raise Mismatch(f"number of dependent variables changed: {list(a.dv_map)} -> {list(b.dv_map)}")
        judged += 1
    return judged
