"""Regenerate MANIFEST.json from the table below: `python -m vp.manifest_gen`."""
import json
from pathlib import Path

ROOT = Path(__file__).resolve().parent.parent

BASELINE_OFF = (
    "cd /repo && /venv/bin/python -m pytest -ra -q -p no:cacheprovider --timeout=900 "
    "--continue-on-collection-errors --junitxml=/var/tmp/pharmpy-baseline.junit.xml"
)

# property -> (category, technique, text, note, design_ref)
CHECKS = {
    "C10": (
        "exploration",
        "reference-interpreter oracle over generated straight-line programs (runtime monitoring of the real Statements methods)",
        "Every query (full_expression, dependencies, remove_symbol_definitions, reassign, subs, find_assignment, "
        "remove_unused_parameters_and_rvs) is run on thousands of generated programs and judged by a sequential-store "
        "interpreter and an exact reaching-definition closure; held on the programs explored, not a proof.",
        "Trusted: sympy tree conversion of expressions, vp.ir_eval numeric evaluator, the 60-line reference closure.",
        "DESIGN.md §3 C10",
    ),
}

NOT_BUILT = "check not built yet in this session (design in DESIGN.md); not claimed"


def main():
    props = [json.loads(l) for l in (ROOT / "properties.jsonl").read_text().splitlines() if l.strip()]
    checks = []
    na = []
    for p in props:
        pid = p["id"]
        if pid in CHECKS:
            cat, tech, text, note, ref = CHECKS[pid]
            checks.append(
                {
                    "property_id": pid,
                    "quick_cmd": f"./check {pid} --tier quick",
                    "thorough_cmd": f"./check {pid} --tier thorough",
                    "evidence_file": f"evidence/{pid}.json",
                    "replay_cmd_template": f"./check {pid} --replay {{path}}",
                    "engine": "farm",
                    "level_claimed": {"category": cat, "text": text, "design_ref": ref},
                    "level_note": note,
                    "technique": tech,
                }
            )
        else:
            na.append({"property_id": pid, "reason": NA_REASONS.get(pid, NOT_BUILT)})
    man = {
        "version": 1,
        "setup_cmd": "./setup.sh",
        "hooks": {
            "guard": "PHARMPY_VERIF",
            "enable": "none needed: all instrumentation (contracts, audit hooks, shimmed threading/fcntl for private "
            "instances of lock.py, sys.monitoring) is applied from the harness at run time; /repo is imported from its working tree",
            "baseline_off_cmd": BASELINE_OFF,
            "source_commits": [],
            "add_only": True,
        },
        "engines": [
            {"name": "farm", "path": "vp/farm.py", "serves_properties": sorted(CHECKS),
             "kind_free_text": "fork-based worker farm running generated cases against the real pharmpy code under monitors; merges monitor counters into evidence"},
        ],
        "checks": checks,
        "not_applicable": na,
        "notes": "Runtime monitoring only. Exit codes: 0 held on everything observed, 1 violation (VIOLATION line), 2 inconclusive "
        "(INCONCLUSIVE line). Known findings: known_findings.json.",
    }
    (ROOT / "MANIFEST.json").write_text(json.dumps(man, indent=1) + "\n")
    print(f"MANIFEST.json: {len(checks)} checks, {len(na)} not claimed")


NA_REASONS = {}

if __name__ == "__main__":
    main()
