"""Regenerate MANIFEST.json from the table below: `python -m vp.manifest_gen`."""
import json
from pathlib import Path

ROOT = Path(__file__).resolve().parent.parent

BASELINE_OFF = (
    "cd /repo && /venv/bin/python -m pytest -ra -q -p no:cacheprovider --timeout=900 "
    "--continue-on-collection-errors --junitxml=/var/tmp/pharmpy-baseline.junit.xml"
)

# property -> (category, technique, text, note, design_ref)
REF = "Trusted: vp.nmtran_ref (my executable reading of the NONMEM documentation; NONMEM itself is not installed), vp.ir_eval, sympy/mpmath; 50-digit arithmetic with a conditioning probe decides which sample points are compared."

CHECKS = {
    "C01": ("exploration",
            "differential runtime oracle: independent NM-TRAN reference interpreter vs the Model returned by pharmpy's reader, on grammar-generated control streams",
            "Every generated control stream (all ADVAN/TRANS, $DES, $PRED, parameter-record layouts) is read by the real reader and its parameters, random-effect structure, $PK variables, vector field, dose events, F and $ERROR variables are compared at sampled environments with an independent interpreter of the text. Held on the programs explored; listed known findings are re-observed by delta check.",
            REF, "DESIGN.md §3 C01"),
    "C02": ("exploration",
            "differential runtime oracle after every step of random transformation histories: generated code interpreted by the NM-TRAN reference vs in-memory model, plus write/read-back",
            "After each of thousands of transformation steps the generated control stream is interpreted independently and compared with the in-memory model; the model is written, re-read and compared again, datasets cell by cell. Violations are attributed to listed mechanisms by signature + delta check, or to the shortest failing sub-history when pharmpy contradicts itself on it (its own re-reading of the generated code differs from the in-memory model); a mismatch on which pharmpy agrees with itself and only the reference reading differs is inconclusive for this property and counted.",
            REF + " THETA/ETA/EPS aligned by position; compartments by name.", "DESIGN.md §3 C02"),
    "C10": ("exploration",
            "reference-interpreter oracle over generated straight-line programs (runtime monitoring of the real Statements methods)",
            "Every query (full_expression, dependencies, remove_symbol_definitions, reassign, subs, find_assignment, remove_unused_parameters_and_rvs) is run on thousands of generated programs and judged by a sequential-store interpreter and an exact reaching-definition closure; held on the programs explored, not a proof.",
            "Trusted: sympy tree conversion of expressions, vp.ir_eval numeric evaluator, the 60-line reference closure.", "DESIGN.md §3 C10"),
    "C11": ("exploration",
            "reference-model monitor (name -> level/mean, pair -> covariance) over random join/unjoin/index/subs/+ sequences; numpy eigen-decomposition oracle for matrix facts",
            "Random operation sequences on the real RandomVariables objects are shadowed by a trivially correct reference; matrix repair, sd/corr and ucp conversions are checked against numpy on generated matrices.",
            "Trusted: numpy.linalg.eigh, the reference update rules in vp/gen/rvs.py.", "DESIGN.md §3 C11"),
    "C17": ("exploration",
            "event-log monitor with forced schedules: every task function is wrapped, start/end/args recorded, gates opened by a seeded controller; offline check of exactly-once, ordering, argument order and result vs a sequential reference",
            "Random builder-op sequences produce DAGs that are really executed through execute_workflow under forced, distinct completion orders; the recorded history is checked offline and the graph after every builder operation is compared with a shadow.",
            "Trusted: the harness's shadow of builder operations (entry order = order of builder calls); threading.Event gating; dask threaded scheduler as the system under test.", "DESIGN.md §3 C17"),
    "C18": ("exploration",
            "independent MFL reader expanding spaces to explicit option sets; algebraic laws and enumeration counts monitored on the real ModelFeatures and workflow builders",
            "Grammar-generated MFL strings and pairs are parsed by the real parser and by an independent reader; parse/print round trip, +, -, ==, contain_subset, least_number_of_transformations and the exhaustive / stepwise task graphs are compared with set operations and an independent path enumerator; partitions/subsets exhaustive for n<=6.",
            "Trusted: the independent reader in vp/gen/mfl.py written from docs/mfl.rst and the grammar comments; rules of docs/modelsearch.rst.", "DESIGN.md §3 C18"),
}

CHECKS.update({
    "C13": ("exploration",
            "character-level reference reader written from the NM-TRAN rules in docs/NONMEM.rst vs read_model(...).dataset and read_nonmem_dataset on generated data files; write/read cycle monitor",
            "Generated data files built item by item from the documented lexical forms, $INPUT lists and IGNORE/ACCEPT filters are read through the real reader (two entry points) and compared cell by cell with an independent reference reader; random frames are written with write_csv/write_model and re-read.",
            "Trusted: the reference reader in vp/gen/datafiles.py (my reading of the docs/NONMEM.rst bullet rules); Python float() for normalised tokens.", "DESIGN.md §3 C13"),
    "C20": ("exploration",
            "reference writer renders synthetic NONMEM runs in the documented fixed-width formats; NONMEMTableFile and read_modelfit_results must return float(printed token), designated rows, consistent names and the defining relations",
            "Synthetic runs (ext/phi/cov/cor/coi/$TABLE/lst + control stream) are written by an independent writer and read by the real readers; parsed values, special rows, labels, relations cor/coi/se and the JSON round trip are checked on every run.",
            "Trusted: vp/gen/nmoutput.py (formats as documented and as in the checked-in example outputs); numpy for matrix relations with condition-number scaled tolerances.", "DESIGN.md §3 C20"),
})

CHECKS.update({
    "C03": ("exploration",
            "byte-equality monitors on the real parser and update path: str(parse(T)) == T, model.code == T, no-op update_source, and an independent record splitter comparing unrelated records after single edits",
            "Corpus, generated and layout-mutated control streams are parsed and printed, read as models, regenerated without modification and after one single-component edit; every byte of every record the edit does not concern must survive in order. Violations are attributed to listed mechanisms by normalisation delta checks.",
            "Trusted: the harness's own record splitter (^[ \\t]*\\$NAME) and the table of record kinds an edit may touch (DESIGN.md §3 C03).", "DESIGN.md §3 C03"),
    "C04": ("exploration",
            "two independent readers of the generated parameter records (vp.nmtran_ref record readers and pharmpy's own reader) monitored after every edit of generated record layouts; token-spelling monitor for untouched values",
            "Generated $THETA/$OMEGA/$SIGMA layouts are read, edited by random sequences of public parameter / random-effect edits, and after every edit the generated text must give back exactly the model's parameters and distributions under both readers; untouched thetas and untouched $OMEGA/$SIGMA records must keep their spelling. Violations are attributed to listed mechanisms only by replaying the same edits on a repaired layout (delta check).",
            "Trusted: record semantics of DESIGN.md Appendix A.3 as coded in vp.nmtran_ref; bounds are compared for thetas only (NM-TRAN has none for $OMEGA/$SIGMA).", "DESIGN.md §3 C04"),
    "C05": ("exploration",
            "shadow-model monitor: a dict-of-edges shadow maintained in lock-step with CompartmentalSystemBuilder calls; numeric comparison of eqs / matrix / inputs / mass balance / round trips at random points",
            "Random builder histories on <= 6 compartments; every built system is compared with the shadow on equations, compartmental matrix, zero-order inputs, mass balance, to_compartmental_system equivalence, dict/JSON round trip, subs and accessors.",
            "Trusted: the shadow in vp/gen/graphs.py (no pharmpy imports), vp.ir_eval for numeric evaluation.", "DESIGN.md §3 C05"),
    "C14": ("exploration",
            "record-by-record reference walk (explicit loops) vs the real dataset derivations on generated event datasets; frame-preservation and input-unchanged monitors",
            "Generated event datasets (ties, ADDL/II, SS, EVID 0-4, unsorted ids, renamed columns) are passed to every derivation of pharmpy.modeling.data and compared with a chronological per-individual walk; column-adding functions are checked to keep records, values, dtypes and order and not to touch the input frame.",
            "Trusted: the reference walks in vp/gen/datasets.py following the function docstrings (tie rule of get_doseid); undocumented cases are counted as not judged.", "DESIGN.md §3 C14"),
    "C19": ("exploration",
            "defining formulas in numpy/scipy and an independent strictness evaluator / parameter classifier vs the real ranking, criteria, LRT and resampling statistics on synthetic results",
            "Candidate sets derived from example models with synthetic ModelfitResults (ties, NaN, inf, flags) are ranked by the real rank_models under all rank types, cut-offs, penalties, parent maps and random strictness expressions and compared with a reference; AIC/BIC/LRT and bootstrap/cdd/simeval/shrinkage/delta-method statistics are recomputed from their definitions.",
            "Trusted: formulas as documented (docs/*.rst, docstrings) coded in vp/gen/results.py; where docs leave a choice the numpy/pandas defaults are accepted (listed in the evidence).", "DESIGN.md §3 C19"),
})

CHECKS.update({
    "C06": ("exploration",
            "runtime contracts on the real public API (vp.contracts: K-IMM deep argument snapshots compared after every call - also when it raises -, K-WF well-formedness of returned models, K-EQ equality/hash/copy laws), driven by histories, docstring examples, a signature sweep and an aliasing probe",
            "Every function of pharmpy.modeling.__all__ (and Model.update_source / write_files) is wrapped from outside the repository and rebound in all pharmpy modules; thousands of monitored calls with arguments that are products of earlier calls and share DataFrames. Evidence lists the distinct functions reached.",
            "Trusted: the snapshot definition (dataset row hashes, columns, dtypes, component dicts, control stream text); well-formedness in delta form w.r.t. the argument models.", "DESIGN.md §3 C06, §2.2"),
    "C07": ("exploration",
            "differential runtime oracle: vp.ir_eval evaluation of the model before and after each preserving refactoring at sampled inputs; extractors vs direct evaluation and central finite differences; closed-form ODE solutions vs the vector field",
            "Corpus models and products of <= 3 random transformation steps are refactored by 15 preserving transformations and compared on vector field, F and dependent variables; gradient / prediction extractors are compared with direct evaluation and finite differences; solve_ode_system's closed form must satisfy the original ODE.",
            "Trusted: vp.ir_eval in 50-digit arithmetic (points whose value changes between 50 and 120 digits are not judged); parameters matched by name.", "DESIGN.md §3 C07"),
})

CHECKS.update({
    "C08": ("exploration",
            "request-sequence monitor: pharmpy's detectors cross-checked by an independent shape classifier of the compartment graph after every request; idempotence and reversibility judged by the vp.ir_eval equivalence oracle; totality by exception class",
            "All request sequences of length <= 2 (quick) / <= 3 (thorough, exhaustive over the 19-request alphabet and 4 start models) are applied to the real setters; after the last request the detector of its category, the other categories, idempotence, reversibility (add/remove pairs and count categories) and the absence of internal errors are checked.",
            "Trusted: the shape classifier in vp/checks/c08.py; detector precedence as documented by get_model_features; vp.denote.compare_models with parameters matched by name.", "DESIGN.md §3 C08"),
})

CHECKS.update({
    "C15": ("exploration",
            "controlled-scheduler runtime monitor: private instances of the real lock.py (one per simulated process) run with shimmed threading / fcntl / os on a simulated POSIX record-lock kernel; every lock, condition and system call is a scheduling point chosen by a seeded (random / PCT) scheduler; online monitor of mutual exclusion, kernel-lock coverage, recursion rule, try-lock soundness, pool emptiness, and deadlock classification against an ideal reader-writer lock; plus a real-kernel stress tier: real processes and threads on the real fcntl with sys.monitoring yield injection, in-body enter/exit events merged and checked offline for overlap, /proc/locks read back inside lock bodies",
            "Generated nested lock programs (<= 3 threads over <= 2 processes, <= 2 paths, shared/exclusive, blocking/non-blocking, reentrant or not) are each executed under 40 (quick) / 250 (thorough) distinct schedules; at every entry and exit the holders recorded at the client boundary are checked against each other and against the simulated kernel's lock table; every run that ends with blocked threads is classified as inherent (ideal lock would block too / kernel EDEADLK) or as a lost wake-up. 36 (quick) / 600 (thorough) further cases run deadlock-free-by-construction programs in 2-3 real processes x 1-4 real threads for 20 / 40 rounds against the real kernel (exclusion on recorded intervals, kernel lock present and exclusive as needed per /proc/locks, bookkeeping, descriptors and kernel locks empty at the end); a real run that does not finish is inconclusive.",
            "Trusted: vp/sched.py (cooperative scheduler, shims, the simulated kernel follows fcntl(2): per-process record locks, replaced on re-lock, all dropped on any close of the file, EDEADLK on cycles). CPython's own Lock/Condition are not under test; in the real-kernel tier the kernel's /proc/locks listing and CLOCK_MONOTONIC are trusted.", "DESIGN.md §3 C15, §10.2"),
})

CHECKS.update({
    "C12": ("exploration",
            "round-trip and key monitors on the real to_dict / from_dict / ModelHash code over history products, generated control streams and generated components; the same models rebuilt in fresh interpreters under different PYTHONHASHSEED values (cross-process determinism)",
            "Every component reachable from a model (and components generated through the public create() functions with option values the histories never set) is serialised, JSON-encoded, decoded, rebuilt and compared with pharmpy's own equality; the generic code is parsed back; content-preserving variants (name, description, path, format, dict round trip, dataset copy, compartment graph rebuilt in another insertion order, rename round trip) must keep the key and 11 single-point content mutations must change it; batches of models are rebuilt in three fresh interpreters with other hash seeds and key, dataset key and dictionary digest compared with the parent's.",
            "Trusted: pharmpy's own __eq__ as the equality the property is stated in; JSON-compatible read modulo tuple==list; categories with non-string keys are outside the documented type and not generated.", "DESIGN.md §3 C12"),
})

CHECKS.update({
    "C09": ("exploration",
            "intervention oracle: the original model executed by vp.ir_eval with the changed quantity replaced, at its last assignment, by the documented formula (vp/docs_frozen.py, transcribed from docstrings and docs/modeling.rst, no pharmpy import) vs the model returned by the real extension function, at sampled points; neutrality at the reference point, documented initial estimates / bounds, detectors vs numeric classification, removal restoring the original",
            "16 kinds of extensions (covariate effects of every type and operation, allometry, add_iiv / add_pk_iiv / add_iov templates, eta transformations, every error-model setter with its options, BLQ m3/m4, absorption / transit / lag-time setters) are applied with drawn options to pheno variants and generated ADVAN models with generated covariate columns (skewed, time-varying, categorical, occasion); the changed quantity, everything downstream (vector field, F, Y) and everything unrelated are compared at 4-6 points per case in 50-digit arithmetic.",
            "Trusted: vp/docs_frozen.py as the reading of the documentation (where the docs leave two readings, e.g. median of records vs of per-individual medians, both are accepted and counted); dataset statistics by numpy.", "DESIGN.md §3 C09"),
})

CHECKS.update({
    "C16": ("fault_enumeration",
            "audit-hook crash injection (vp/crashfs.py): every file-system mutation event of a workload (open for writing, mkdir, remove, rename/replace, symlink, utime ...) is a crash point; forked children re-run the workload and raise / die / die after tearing the last written file at each point, a fresh process restarts on the directory and evaluates the recovery oracle; fidelity monitor with hostile strings; concurrent real processes",
            "Workloads of <= 4 store/log/annotation operations over <= 3 models (two sharing a dataset); for EVERY crash point and the three flavours (exception, process death, torn last write): no partial entry visible as complete, everything that had returned before the fault still retrievable and faithful, storing the other models afterwards succeeds. Exhaustive over crash points per workload; workloads, tear offsets and concurrent schedules are sampled. Fidelity: entries, annotations, metadata and log rows with hostile strings are retrieved by key and by name and compared verbatim / cell-exact.",
            "Trusted: sys.addaudithook event stream as the set of mutation points (a probe measured ~30 events per store); 'committed' = the pharmpy call had returned before the fault (DESIGN.md A.5). Power-loss reordering of closed files and faults inside read paths are out of scope.", "DESIGN.md §3 C16, §2.5"),
})

READY = ["C02", "C16", "C09", "C12", "C15", "C01", "C03", "C04", "C06", "C07", "C08", "C05", "C10", "C11", "C13", "C14", "C17", "C18", "C19", "C20"]

NOT_BUILT = "check not built yet in this session (design in DESIGN.md); not claimed"


def main():
    props = [json.loads(l) for l in (ROOT / "properties.jsonl").read_text().splitlines() if l.strip()]
    checks = []
    na = []
    for p in props:
        pid = p["id"]
        if pid in CHECKS and pid in READY:
            cat, tech, text, note, ref = CHECKS[pid]
            checks.append(
                {
                    "property_id": pid,
                    "quick_cmd": f"./check {pid} --tier quick",
                    "thorough_cmd": f"./check {pid} --tier thorough",
                    "evidence_file": f"evidence/{pid}.json",
                    "replay_cmd_template": f"./check {pid} --replay {{path}}",
                    "engine": "farm",
                    "level_claimed": {"category": cat, "text": text, "design_ref": ref},
                    "level_note": note,
                    "technique": tech,
                }
            )
        else:
            na.append({"property_id": pid, "reason": NA_REASONS.get(pid, NOT_BUILT)})
    man = {
        "version": 1,
        "setup_cmd": "./setup.sh",
        "hooks": {
            "guard": "PHARMPY_VERIF",
            "enable": "none needed: all instrumentation (contracts, audit hooks, shimmed threading/fcntl for private "
            "instances of lock.py, sys.monitoring) is applied from the harness at run time; /repo is imported from its working tree",
            "baseline_off_cmd": BASELINE_OFF,
            "source_commits": [],
            "add_only": True,
        },
        "engines": [
            {"name": "farm", "path": "vp/farm.py", "serves_properties": sorted(CHECKS),
             "kind_free_text": "fork-based worker farm running generated cases against the real pharmpy code under monitors; merges monitor counters into evidence"},
            {"name": "denote", "path": "vp/denote.py", "serves_properties": [p for p in ("C01", "C02", "C04", "C07", "C08", "C09") if p in READY],
             "kind_free_text": "semantic oracle: vp.nmtran_ref (independent NM-TRAN interpreter) and vp.ir_eval (independent evaluator of the model IR) compared at sampled environments in 50-digit arithmetic"},
            {"name": "contracts", "path": "vp/contracts.py", "serves_properties": ["C06"],
             "kind_free_text": "runtime contracts (argument snapshots compared after every call, well-formedness of results, equality/hash laws) wrapped around the public API and rebound in every pharmpy module"},
            {"name": "sched", "path": "vp/sched.py", "serves_properties": ["C15"],
             "kind_free_text": "controlled scheduler: private instances of lock.py with shimmed threading/fcntl/os on a simulated POSIX record-lock kernel; every lock, condition and system call is a scheduling point"},
            {"name": "crashfs", "path": "vp/crashfs.py", "serves_properties": ["C16"],
             "kind_free_text": "audit-hook fault injection: exception, process death or torn last write before the k-th file-system mutation event, in forked children"},
            {"name": "xproc", "path": "vp/xproc_child.py", "serves_properties": ["C12"],
             "kind_free_text": "fresh interpreters under other PYTHONHASHSEED values rebuilding the same models and reporting keys and digests"},
        ],
        "checks": checks,
        "not_applicable": na,
        "notes": "Runtime monitoring only. Exit codes: 0 held on everything observed, 1 violation (VIOLATION line), 2 inconclusive "
        "(INCONCLUSIVE line). Known findings: known_findings.json.",
    }
    (ROOT / "MANIFEST.json").write_text(json.dumps(man, indent=1) + "\n")
    print(f"MANIFEST.json: {len(checks)} checks, {len(na)} not claimed")


NA_REASONS = {}

if __name__ == "__main__":
    main()
