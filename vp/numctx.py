"""Numeric context shared by the two evaluators: plain floats (default) or 50-digit mpmath numbers with an optional
relative perturbation of every numeric literal (conditioning probe)."""
from __future__ import annotations

import math
import random

import mpmath


class _Ctx:
    def __init__(self):
        self.mode = "float"
        self.mp = mpmath.mp.clone()
        self.mp.dps = 50
        self._delta = 0.0
        self._rng = None

    # ---- configuration
    def use_float(self):
        self.mode = "float"
        self._delta = 0.0

    def set_dps(self, n):
        self.mp.dps = n

    def use_mp(self, delta=0.0, seed=0):
        """delta > 0: every literal is multiplied by (1 + delta*u), u uniform in [-1, 1] per occurrence."""
        self.mode = "mp"
        self._delta = delta
        self._rng = random.Random(seed)

    # ---- leaves
    def num(self, x):
        if self.mode == "float":
            return float(x)
        v = self.mp.mpf(x)
        if self._delta and x not in (0.0, 1.0, -1.0, 2.0, 0.5):
            v = v * (1 + self.mp.mpf(self._delta) * self._rng.uniform(-1, 1))
        return v

    def rat(self, p, q):
        if self.mode == "float":
            return p / q
        v = self.mp.mpf(p) / self.mp.mpf(q)
        if self._delta and q != 1 and (p, q) not in ((1, 2), (-1, 2)):
            v = v * (1 + self.mp.mpf(self._delta) * self._rng.uniform(-1, 1))
        elif self._delta and q == 1 and abs(p) > 2:
            v = v * (1 + self.mp.mpf(self._delta) * self._rng.uniform(-1, 1))
        return v

    def val(self, x):
        """A value from an environment (already perturbed by the caller if wanted)."""
        if self.mode == "float":
            return float(x)
        return x if isinstance(x, self.mp.mpf) else self.mp.mpf(x)

    def one(self):
        return 1.0 if self.mode == "float" else self.mp.mpf(1)

    def e(self):
        return math.e if self.mode == "float" else self.mp.e

    def pi(self):
        return math.pi if self.mode == "float" else self.mp.pi

    def fsum(self, xs):
        return math.fsum(xs) if self.mode == "float" else self.mp.fsum(xs)

    def pow(self, b, x):
        if self.mode == "float":
            return b**x
        return self.mp.power(b, x)

    _F = {"exp": "exp", "log": "log", "sqrt": "sqrt", "sin": "sin", "cos": "cos", "tan": "tan", "asin": "asin",
          "acos": "acos", "atan": "atan", "sinh": "sinh", "cosh": "cosh", "tanh": "tanh", "floor": "floor",
          "ceil": "ceil", "lgamma": "loggamma", "gamma": "gamma", "erf": "erf"}

    def f(self, name, x):
        if name == "abs":
            return abs(x)
        if self.mode == "float":
            if name == "lgamma":
                return math.lgamma(x)
            return float(getattr(math, name)(x))
        return getattr(self.mp, self._F[name])(x)

    def trunc(self, x):
        if self.mode == "float":
            return float(math.trunc(x))
        return self.mp.floor(x) if x >= 0 else self.mp.ceil(x)

    def fmod(self, a, b):
        """Fortran MOD: a - INT(a/b)*b (sign of the dividend)."""
        if self.mode == "float":
            return math.fmod(a, b)
        return a - self.trunc(a / b) * b


CTX = _Ctx()
