"""crashfs - crash points through audit hooks (DESIGN.md 2.5), used by check C16.

A *mutation event* is an audit event that changes the file system below a given root directory:
`open` with write flags (this includes pathlib's touch), os.mkdir / rmdir / remove / rename (= os.replace) / symlink /
link / utime / truncate / chmod and the shutil.* events.  Events are numbered 1..N in the order in which the code
under test raises them.  The hook runs *before* the operation executes, so "crash at k" leaves exactly the
operations 1..k-1 on disk.

Audit hooks cannot be removed, therefore `install()` adds one hook per process that is inert unless armed.  The
intended use is inside a forked child (`run_forked`); the worker process itself never installs the hook.

Modes (arm(...)):
  count          record every mutation event (with the operation index set through set_op) - nothing is injected
  exc            raise InjectedFault before event k (once), the program continues to unwind normally
  exit           os._exit(137) before event k: process death, unflushed Python buffers are lost
  delay          sleep `frac` seconds before every mutation event (no fault), and slow[1] seconds before the events
                 on paths ending in one of slow[0]: widens the windows between the file operations of a writer
                 so that concurrent readers really arrive inside them
  torn           event k-1 must be an open that truncates or appends (a *tearable* open): before event k executes
                 (or at end_of_workload() if k-1 was the last event) the file is cut back to
                 base + frac*(size-base) bytes, base = 0 for 'w' and the size at open time for 'a', then
                 os._exit(137).  This is the state "death during the write that followed open number k-1": no
                 other mutation can lie between the two events, because every mutation is an event.
Progress is reported through a raw file descriptor with os.write (survives os._exit).
"""
from __future__ import annotations

import json
import os
import select
import signal
import sys
import time

EXIT_CODE = 137
_WRITE_FLAGS = os.O_WRONLY | os.O_RDWR | os.O_CREAT | os.O_TRUNC | os.O_APPEND
_PATH_EVENTS = {
    # event -> index of the argument that names the path being changed
    "os.mkdir": 0, "os.rmdir": 0, "os.remove": 0, "os.utime": 0, "os.truncate": 0, "os.chmod": 0, "os.chown": 0,
    "os.rename": 1, "os.symlink": 1, "os.link": 1,
    "shutil.copyfile": 1, "shutil.copymode": 1, "shutil.copystat": 1, "shutil.copytree": 1, "shutil.move": 1,
    "shutil.rmtree": 0, "shutil.chown": 0, "shutil.make_archive": 0, "shutil.unpack_archive": 1,
}


class InjectedFault(Exception):
    """The 'exception' flavour.  Deliberately not an OSError: code that handles OSError must not be able to
    mistake it for an error it knows how to repair."""


class _State:
    installed = False
    armed = False
    busy = False
    root = ""
    mode = "count"
    k = 0
    frac = 0.0
    n = 0
    op = -1
    fired = False
    events = None
    pending_tear = None  # (path, base) of the tearable open that was event k-1
    pfd = None
    slow = None  # delay mode: (path suffixes, seconds) - a long sleep before the events on these paths


_S = _State()


def _say(line):
    if _S.pfd is not None:
        try:
            os.write(_S.pfd, (line + "\n").encode())
        except OSError:
            pass


def _path_of(event, args):
    if event == "open":
        p = args[0]
        if isinstance(p, int):
            return None, None
        flags = args[2] if len(args) > 2 and isinstance(args[2], int) else 0
        if not flags & _WRITE_FLAGS:
            return None, None
        return p, flags
    i = _PATH_EVENTS.get(event)
    if i is None or len(args) <= i:
        return None, None
    return args[i], None


def _tear_and_die():
    path, base, _op = _S.pending_tear
    try:
        size = os.stat(path).st_size
    except OSError:
        size = base
    cut = base + int(_S.frac * max(0, size - base))
    cut = min(cut, size)
    _say(f"T {cut} {size} {base}")
    try:
        os.truncate(path, cut)
    except OSError:
        pass
    os._exit(EXIT_CODE)


def _hook(event, args):
    if not _S.armed or _S.busy:
        return
    if event != "open" and event not in _PATH_EVENTS:
        return
    p, flags = _path_of(event, args)
    if p is None:
        return
    _S.busy = True
    try:
        try:
            p = os.fspath(p)
            if isinstance(p, bytes):
                p = p.decode("utf-8", "surrogateescape")
        except TypeError:
            return
        if not os.path.isabs(p):
            p = os.path.abspath(p)
        if not (p == _S.root or p.startswith(_S.root + "/")):
            return
        _S.n += 1
        n = _S.n
        tear = None
        if event == "open" and flags is not None:
            if flags & os.O_TRUNC:
                tear = 0
            elif flags & os.O_APPEND:
                try:
                    tear = os.stat(p).st_size
                except OSError:
                    tear = 0
        if _S.mode == "delay":  # schedule perturbation for the concurrency check: stretch the writer's windows
            time.sleep(_S.slow[1] if _S.slow and p.endswith(_S.slow[0]) and not (event == "open" and flags == 0) else _S.frac)
            return
        if _S.mode == "count":
            _S.events.append({"n": n, "ev": event, "path": p[len(_S.root) + 1:], "flags": flags, "op": _S.op,
                              "tear": tear is not None})
            return
        if _S.fired:
            return
        if _S.mode == "torn":
            if n == _S.k - 1:
                if tear is None:
                    _say(f"N {n}")  # not a tearable open: the harness asked for an impossible point
                    os._exit(3)
                _S.pending_tear = (p, tear, _S.op)
            elif n == _S.k:
                _S.fired = True
                _say(f"F {n} {_S.pending_tear[2]}")  # the in-flight operation is the one that opened the file
                _tear_and_die()
            return
        if n == _S.k:
            _S.fired = True
            _say(f"F {n} {_S.op}")
            if _S.mode == "exit":
                os._exit(EXIT_CODE)
            raise InjectedFault(f"injected before mutation event {n} ({event})")
    finally:
        _S.busy = False


def install():
    if not _S.installed:
        sys.addaudithook(_hook)
        _S.installed = True


def arm(root, mode="count", k=0, frac=0.0, progress_fd=None, slow=None):
    install()
    _S.slow = slow
    _S.root = os.path.abspath(str(root)).rstrip("/")
    _S.mode, _S.k, _S.frac = mode, k, frac
    _S.n, _S.op, _S.fired, _S.events, _S.pending_tear = 0, -1, False, [], None
    _S.pfd = progress_fd
    _S.armed = True


def disarm():
    _S.armed = False


def set_op(i):
    _S.op = i


def fired():
    return _S.fired


def events():
    return list(_S.events or [])


def end_of_workload():
    """Torn flavour whose tearable open was the last mutation event of the workload."""
    if _S.armed and _S.mode == "torn" and not _S.fired and _S.pending_tear is not None and _S.n == _S.k - 1:
        _S.fired = True
        _say(f"F {_S.k} {_S.pending_tear[2]}")
        _tear_and_die()


# ---------------------------------------------------------------------------------------------- processes
def run_forked(fn, timeout=40.0):
    """Run fn(write_fd) in a forked child; returns (status, output bytes).  status: the exit code, -signal, or
    'timeout' (child killed).  The child leaves with os._exit, so nothing buffered in the parent's copy of
    stdout / the farm's log file is written twice."""
    r, w = os.pipe()
    sys.stdout.flush()
    sys.stderr.flush()
    pid = os.fork()
    if pid == 0:
        code = 0
        try:
            os.close(r)
            signal.alarm(0)
            signal.signal(signal.SIGALRM, signal.SIG_DFL)
            fn(w)
        except SystemExit as e:
            code = e.code if isinstance(e.code, int) else 1
        except BaseException as e:  # report, never propagate into the farm's loop in the child
            try:
                import traceback

                os.write(w, ("!HARNESS " + json.dumps(traceback.format_exc()[-1500:]) + "\n").encode())
            except Exception:
                pass
            code = 70
        finally:
            os._exit(code)
    os.close(w)
    chunks = []
    deadline = time.monotonic() + timeout
    status = None
    try:
        while True:
            left = deadline - time.monotonic()
            if left <= 0:
                status = "timeout"
                break
            ready, _, _ = select.select([r], [], [], min(left, 1.0))
            if ready:
                b = os.read(r, 1 << 16)
                if not b:
                    break
                chunks.append(b)
        if status == "timeout":
            try:
                os.kill(pid, signal.SIGKILL)
            except ProcessLookupError:
                pass
        _, st = os.waitpid(pid, 0)
        pid = None
        if status is None:
            status = -os.WTERMSIG(st) if os.WIFSIGNALED(st) else os.WEXITSTATUS(st)
    finally:
        os.close(r)
        if pid is not None:  # CaseTimeout or another exception while waiting: do not leave the child behind
            try:
                os.kill(pid, signal.SIGKILL)
                os.waitpid(pid, 0)
            except (ProcessLookupError, ChildProcessError):
                pass
    return status, b"".join(chunks)


def run_forked_many(fns, timeout=60.0, after_fork=None):
    """Fork one child per function (all forked before any is waited for); -> [(status, output bytes), ...].
    after_fork() runs in the parent once every child exists (e.g. to open a start gate)."""
    sys.stdout.flush()
    sys.stderr.flush()
    procs = []
    for fn in fns:
        r, w = os.pipe()
        pid = os.fork()
        if pid == 0:
            code = 0
            try:
                os.close(r)
                for (_, r2, _) in procs:
                    os.close(r2)
                signal.alarm(0)
                signal.signal(signal.SIGALRM, signal.SIG_DFL)
                fn(w)
            except BaseException:
                try:
                    import traceback

                    os.write(w, ("!HARNESS " + json.dumps(traceback.format_exc()[-1500:]) + "\n").encode())
                except Exception:
                    pass
                code = 70
            finally:
                os._exit(code)
        os.close(w)
        procs.append((pid, r, []))
    if after_fork is not None:
        after_fork()
    open_fds = {r: i for i, (_, r, _) in enumerate(procs)}
    status = [None] * len(procs)
    deadline = time.monotonic() + timeout
    try:
        while open_fds:
            left = deadline - time.monotonic()
            if left <= 0:
                break
            ready, _, _ = select.select(list(open_fds), [], [], min(left, 1.0))
            for r in ready:
                b = os.read(r, 1 << 16)
                if b:
                    procs[open_fds[r]][2].append(b)
                else:
                    del open_fds[r]
        for r, i in open_fds.items():
            status[i] = "timeout"
            try:
                os.kill(procs[i][0], signal.SIGKILL)
            except ProcessLookupError:
                pass
    finally:
        for i, (pid, r, _) in enumerate(procs):
            os.close(r)
            try:
                if status[i] is None and open_fds.get(r) is not None:
                    os.kill(pid, signal.SIGKILL)
                _, st = os.waitpid(pid, 0)
                if status[i] is None:
                    status[i] = -os.WTERMSIG(st) if os.WIFSIGNALED(st) else os.WEXITSTATUS(st)
            except (ProcessLookupError, ChildProcessError):
                pass
    return [(status[i], b"".join(procs[i][2])) for i in range(len(procs))]
