"""Documented formulas of pharmpy's model-extending transformations (property C09), frozen at design time.

Everything in here was transcribed by hand from the docstrings in /repo/src/pharmpy/modeling/*.py and from
/repo/docs/modeling.rst.  Nothing imports pharmpy: the functions are plain Python over the numbers of the active
numeric context (vp.numctx.CTX, 50-digit mpmath when a check evaluates).  A mutant that edits pharmpy's template code
and its docstring together is therefore still compared with the formula as it was documented when this file was
written.

Where a docstring is ambiguous the table lists *every* reading (the check accepts any of them); where it is silent
the entry is None (the check does not judge).
"""
from __future__ import annotations

import math

from vp.numctx import CTX


def _mp():
    return CTX.mp


def N(x):
    """number of the active context"""
    return CTX.val(x) if CTX.mode == "mp" else float(x)


def exp(x):
    return CTX.f("exp", N(x))


def log(x):
    return CTX.f("log", N(x))


def power(b, x):
    return CTX.pow(N(b), N(x))


# ------------------------------------------------------------------------------------- covariate effects
# add_covariate_effect docstring: "coveff = ..." per effect; `th` = list of the new thetas in template order,
# `c` = the centring statistic called "median" in the docstring.
def cov_lin(cov, th, c):
    return 1 + th[0] * (cov - c)


def cov_piece_lin(cov, th, c):
    # "If cov <= median: 1 + theta1*(cov - median); If cov > median: 1 + theta2*(cov - median)"
    return 1 + th[0] * (cov - c) if cov <= c else 1 + th[1] * (cov - c)


def cov_exp(cov, th, c):
    return exp(th[0] * (cov - c))


def cov_pow(cov, th, c):
    return power(cov / c, th[0])


COV_EFFECT = {"lin": cov_lin, "piece_lin": cov_piece_lin, "exp": cov_exp, "pow": cov_pow}
COV_NTHETA = {"lin": 1, "piece_lin": 2, "exp": 1, "pow": 1}


def cov_cat(is_most_common, theta, alternative=False):
    """cat:  most common category 1, each additional category 1 + theta(category)
    cat2: most common category 1, each additional category theta(category)"""
    if is_most_common:
        return N(1)
    return theta if alternative else 1 + theta


def r4(x):
    """the code rounds the computed bounds to 4 decimals (not documented; accepted as a rendering of the value)"""
    return round(float(x), 4)


def cov_doc_params(effect, role, c, cmin, cmax):
    """Documented (init, lower, upper) of the theta with the given role (0-based index in template order).

    Each of the three is a list of acceptable values (several readings) or None (docs silent)."""
    c, cmin, cmax = float(c), float(cmin), float(cmax)
    if effect == "lin":
        upper = [100000.0] if c == cmin else [1 / (c - cmin)]
        lower = [-100000.0] if c == cmax else [1 / (c - cmax)]
        return [0.001], lower, upper
    if effect == "cat":
        return [0.001], [-1.0], [5.0]
    if effect == "cat2":
        return [0.001], [0.0], [6.0]
    if effect == "piece_lin":
        # "Upper: For first state: 1/(median - min); Otherwise: 100,000.  Lower: For first state: -100,000;
        #  Otherwise: 1/(median - max)"
        if c == cmin or c == cmax:
            return [0.001], None, None
        if role == 0:
            return [0.001], [-100000.0], [1 / (c - cmin)]
        return [0.001], [1 / (c - cmax)], [100000.0]
    if effect == "pow":
        return [0.001], [-100.0], [100000.0]
    if effect == "exp":
        dmin, dmax = cmin - c, cmax - c
        if dmin == 0 or dmax == 0:
            lowers, uppers = [0.01], [100.0]
        else:
            # "\log" in the docstring: natural logarithm or base 10 - both readings are accepted
            lowers, uppers = [], []
            for lg in (math.log, math.log10):
                uppers.append(min(lg(0.01) / dmin, lg(100) / dmax))
                lowers.append(max(lg(0.01) / dmax, lg(100) / dmin))
        return "exp-rule", lowers, uppers
    return None, None, None


def cov_exp_doc_init(lower, upper):
    """'If lower > 0.001 or upper < 0.001: (upper - lower)/2; If estimated init is 0: upper/2; Otherwise 0.001'"""
    if lower > 0.001 or upper < 0.001:
        init = (upper - lower) / 2
        if init == 0:
            init = upper / 2
        return init
    return 0.001


# ------------------------------------------------------------------------------------- allometry
def allometry(p, x, z, t):
    """P = P*(X/Z)**T"""
    return p * power(x / z, t)


ALLOMETRY_DEFAULTS = {"init_cl_q": 0.75, "init_v": 1.0, "lower": 0.0, "upper": 2.0, "fixed": True}


# ------------------------------------------------------------------------------------- add_iiv
def iiv_add(orig, eta):
    return orig + eta


def iiv_prop(orig, eta):
    return orig * (1 + eta)


def iiv_exp_mul(orig, eta):
    return orig * exp(eta)


def iiv_exp_add(orig, eta):
    return orig + exp(eta)


def iiv_log(orig, eta):
    return orig * exp(eta) / (exp(eta) + 1)


def iiv_re_log(orig, eta):
    phi = log(orig / (1 - orig))
    return exp(phi * eta) / (1 + exp(phi * eta))


IIV_FORMS = {("add", "*"): iiv_add, ("add", "+"): iiv_add, ("prop", "*"): iiv_prop, ("prop", "+"): iiv_prop,
             ("exp", "*"): iiv_exp_mul, ("exp", "+"): iiv_exp_add, ("log", "*"): iiv_log, ("log", "+"): iiv_log,
             ("re_log", "*"): iiv_re_log, ("re_log", "+"): iiv_re_log}
IIV_DEFAULT_INIT = 0.09
IOV_INIT_FRACTION = 0.1  # "Initial estimate of new IOVs are 10% of the IIV eta it is based on"


# ------------------------------------------------------------------------------------- eta transformations
def eta_boxcox(eta, lam):
    """docstring example: exp((exp(ETA_CL)**lambda1 - 1)/lambda1)"""
    return (power(exp(eta), lam) - 1) / lam


def eta_tdist(eta, df):
    """docstring example: ETA*(1 + (ETA**2 + 1)/(4*df) + (5*ETA**4 + 16*ETA**2 + 3)/(96*df**2) + ... ; the third
    term of the published approximation (3*ETA**6 + 19*ETA**4 + 17*ETA**2 - 15)/(384*df**3) is cut off by the
    ellipsis of the example"""
    e2 = eta * eta
    return eta * (1 + (e2 + 1) / (4 * df) + (5 * e2 * e2 + 16 * e2 + 3) / (96 * df * df)
                  + (3 * e2 * e2 * e2 + 19 * e2 * e2 + 17 * e2 - 15) / (384 * df * df * df))


def eta_john_draper(eta, lam):
    """docstring example: ((Abs(ETA_CL) + 1)**lambda1 - 1)*sign(ETA_CL)/lambda1"""
    sg = (eta > 0) - (eta < 0)
    return sg * (power(abs(eta) + 1, lam) - 1) / lam


ETA_TRANSFORMS = {
    # name: (formula, documented init, lower, upper)
    "boxcox": (eta_boxcox, 0.1, -3.0, 3.0),       # "Initial estimate for lambda is 0.1 with bounds (-3, 3)"
    "tdist": (eta_tdist, 80.0, 3.0, 100.0),       # "Initial estimate for degrees of freedom is 80 with bounds (3, 100)"
    "john_draper": (eta_john_draper, 0.1, -3.0, 3.0),
}


# ------------------------------------------------------------------------------------- error models
def err_additive(f, eps, log_trans=False):
    return log(f) + eps / f if log_trans else f + eps


def err_proportional(f, eps, log_trans=False):
    return log(f) + eps if log_trans else f + f * eps


def err_combined(f, eps_p, eps_a, log_trans=False):
    return log(f) + eps_p + eps_a / f if log_trans else f + f * eps_p + eps_a


def init_min_dv(min_dv):
    """(min(DV)/2)**2"""
    return (min_dv / 2) ** 2


ERR_INIT = {
    "additive": {"sigma": "min_dv"},
    "proportional": {"sigma": 0.09},
    # set_combined_error_model: "Initial estimates for new sigmas are (min(DV)/2)**2 for proportional and 0.09 for
    # additive"
    "combined": {"sigma_prop": "min_dv", "sigma_add": 0.09},
}
POWER_INIT = {"proportional": 1.0, "other": 0.1}   # set_power_on_ruv
POWER_LOWER_DEFAULT = 0.01
IIV_ON_RUV_INIT = 0.09


def tbs(x, lam):
    """Box-Cox transform of both sides (dynamic transform both sides); lambda = 0 is the log transform"""
    if lam == 0:
        return log(x)
    return (power(x, lam) - 1) / lam


def phi_cdf(x):
    """standard normal cumulative distribution function"""
    return (1 + CTX.f("erf", N(x) / CTX.f("sqrt", N(2)))) / 2


# ------------------------------------------------------------------------------------- absorption / transit
#   first order absorption:  rate depot -> central = 1/MAT           (mean absorption time MAT)
#   zero order absorption:   infusion duration      = 2*MAT           (mean input time D/2 = MAT)
#   n transit compartments:  every transit rate     = n/MDT           (mean transit time sum(1/rate) = MDT)
