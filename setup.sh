#!/bin/bash
# offline setup: third-party helpers from the wheelhouse into /verif/.deps (git-ignored)
HERE="$(cd "$(dirname "$0")" && pwd)"
cd "$HERE"
if [ ! -d "$HERE/.deps/icontract" ]; then
  PIP_NO_INDEX=1 /venv/bin/pip install --quiet --no-index --find-links /opt/veriftools/wheels --target "$HERE/.deps" icontract deal || exit 1
fi
mkdir -p "$HERE/evidence" "$HERE/replays"
PYTHONPATH="$HERE:$HERE/.deps" /venv/bin/python -W ignore -c "import icontract, vp.farm; print('setup ok')"
