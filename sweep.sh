#!/bin/bash
# background sweep: several seeds of the quick tier for every registered check (not part of MANIFEST)
cd "$(dirname "$0")"; ./setup.sh >/dev/null 2>&1
for s in ${SEEDS:-2 3 4 5}; do
  for c in ${CHECKS:-C04 C05 C10 C11 C13 C14 C17 C18 C19 C20 C01}; do
    VERIF_SEED=$s VERIF_WORKERS=${W:-8} ./check $c --tier ${TIER:-quick} > sweep_${c}_$s.log 2>&1
    echo "seed=$s $c exit=$? $(grep -c 'key=None' sweep_${c}_$s.log) unclassified; $(grep "^\[$c\] tier" sweep_${c}_$s.log | cut -c1-160)"
    mkdir -p sweep_replays; cp replays/${c}-*-s$s-*.json sweep_replays/ 2>/dev/null
  done
done
