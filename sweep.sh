#!/bin/bash
# sweep: several seeds of one tier for every registered check (not part of MANIFEST); evidence/replays go to scratch
cd "$(dirname "$0")"; ./setup.sh >/dev/null 2>&1
OUT=${OUT:-/var/tmp/sweep}; mkdir -p $OUT
for s in ${SEEDS:-0 1 2 3}; do
  for c in ${CHECKS:-C01 C02 C03 C04 C05 C06 C07 C08 C09 C10 C11 C12 C13 C14 C15 C16 C17 C18 C19 C20}; do
    VERIF_SEED=$s VERIF_WORKERS=${W:-15} VERIF_OUT=$OUT ./check $c --tier ${TIER:-quick} > $OUT/${c}_${TIER:-quick}_$s.log 2>&1
    echo "seed=$s $c exit=$? $(grep -c '^  violation' $OUT/${c}_${TIER:-quick}_$s.log) unlisted; $(grep "^\[$c\] tier" $OUT/${c}_${TIER:-quick}_$s.log | grep -o 'executed.*' | cut -c1-150)"
  done
done
