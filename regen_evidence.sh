#!/bin/bash
# regenerate every evidence file from full quick runs in /verif against /repo (seed 0); prints one line per check
cd "$(dirname "$0")"; ./setup.sh >/dev/null 2>&1
for c in ${CHECKS:-C01 C02 C03 C04 C05 C06 C07 C08 C09 C10 C11 C12 C13 C14 C15 C16 C17 C18 C19 C20}; do
  VERIF_SEED=${VERIF_SEED:-0} VERIF_WORKERS=${W:-14} ./check $c --tier quick > /var/tmp/regen_$c.log 2>&1
  echo "$c exit=$? $(grep "^\[$c\] tier" /var/tmp/regen_$c.log | grep -o 'executed.*' | cut -c1-120)"
done
