#!/bin/bash
# confirm and evaluate individual seeded changes: ./seed_eval.sh C01/name C05/name ...   (P parallel jobs, default 3)
cd "$(dirname "$0")"
export PYTHONPATH=/verif
mkdir -p /var/tmp/seeded_logs
printf "%s\n" "$@" | xargs -P ${P:-3} -I{} bash -c 'x={}; id=${x%%/*}; n=${x##*/}; /venv/bin/python -W ignore -m vp.seedtool confirm $id $n > /var/tmp/seeded_logs/$id-$n.log 2>&1; /venv/bin/python -W ignore -m vp.seedtool run $id $n --workers ${W:-5} >> /var/tmp/seeded_logs/$id-$n.log 2>&1; tail -n 2 /var/tmp/seeded_logs/$id-$n.log | cut -c1-400'
