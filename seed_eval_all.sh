#!/bin/bash
# evaluate (not confirm again) every seeded change of the given properties with the current checks, P in parallel
cd "$(dirname "$0")"; export PYTHONPATH=/verif
mkdir -p /var/tmp/seeded_logs2
L=""
for id in ${@:-$(ls seeded)}; do for n in $(ls seeded/$id); do [ -f seeded/$id/$n/patch.diff ] && L="$L $id/$n"; done; done
printf "%s\n" $L | xargs -P ${P:-4} -I{} bash -c 'x={}; id=${x%%/*}; n=${x##*/}; [ -f seeded/$id/$n/confirm.json ] || /venv/bin/python -W ignore -m vp.seedtool confirm $id $n > /var/tmp/seeded_logs2/$id-$n.confirm.log 2>&1; /venv/bin/python -W ignore -m vp.seedtool run $id $n --workers ${W:-4} > /var/tmp/seeded_logs2/$id-$n.log 2>&1; tail -n 1 /var/tmp/seeded_logs2/$id-$n.log | cut -c1-160'
