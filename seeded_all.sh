#!/bin/bash
# confirm and evaluate every seeded change of the given properties (default: all), 3 properties in parallel
cd "$(dirname "$0")"
export PYTHONPATH=/verif
IDS="${@:-$(ls seeded)}"
mkdir -p /var/tmp/seeded_logs
printf "%s\n" $IDS | xargs -P 3 -I{} bash -c '/venv/bin/python -W ignore -m vp.seedtool confirm {} > /var/tmp/seeded_logs/{}.log 2>&1; /venv/bin/python -W ignore -m vp.seedtool run {} --workers 5 >> /var/tmp/seeded_logs/{}.log 2>&1'
/venv/bin/python -W ignore -m vp.seedtool table
