#!/bin/bash
# harvest of C02 violation keys over many seeds (evidence and replays go to a scratch directory)
cd "$(dirname "$0")"
mkdir -p /var/tmp/c02harv
for s in "$@"; do
  VERIF_C02_FRESH=1 VERIF_SEED=$s VERIF_WORKERS=${VERIF_WORKERS:-14} VERIF_OUT=/var/tmp/c02harv ./check C02 --tier quick > /var/tmp/c02h.$s.log 2>&1
  echo "seed $s exit $? $(grep -c '^  violation' /var/tmp/c02h.$s.log) unlisted"
done
