#!/bin/bash
# run C02 quick for several seeds, collect unclassified violations
cd "$(dirname "$0")"
./setup.sh >/dev/null 2>&1
for s in 10 11 12 13 14 15 16 17; do
  VERIF_SEED=$s VERIF_WORKERS=6 ./check C02 --tier quick > harvest_$s.log 2>&1
  grep "key=None\|^\[C02\] tier" harvest_$s.log | cut -c1-400
  mkdir -p harvest_replays; cp replays/C02-quick-s$s-*.json harvest_replays/ 2>/dev/null
done
