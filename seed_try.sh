#!/bin/bash
# ./seed_try.sh <ID>/<name> <check args...>   apply one seeded change in a scratch worktree and run a check against it (scratch outputs)
x=$1; shift
id=${x%%/*}; n=${x##*/}
wt=/tmp/seedtry-$$
git -C /repo worktree add --detach $wt HEAD >/dev/null 2>&1
git -C $wt apply /verif/seeded/$id/$n/patch.diff || { echo "patch does not apply"; git -C /repo worktree remove --force $wt; exit 3; }
mkdir -p /var/tmp/seedtry_out
cd /verif && PYTHONPATH=$wt/src VERIF_OUT=/var/tmp/seedtry_out ./check "$@" 2>&1 | grep -v "^KNOWN" | grep "^\s*\[\|^\[C\|INCONC\|^VIOL" | cut -c1-${CUT:-260} | head -${HEAD:-14}
git -C /repo worktree remove --force $wt
